// vk.hpp — monitor kit core: PRNG, event writer, case loop, context, assertion hooks, death handlers.
// Header-only; exactly one TU per harness binary includes it with VK_MAIN defined (harnesses are single-TU).
#pragma once
#include <cstdint>
#include <cstdio>
#include <cstdlib>
#include <cstring>
#include <string>
#include <vector>
#include <map>
#include <sstream>
#include <functional>
#include <csignal>
#include <exception>
#include <unistd.h>
#include <fcntl.h>
#include <sys/wait.h>

namespace vk {

using L = long;

// ---------------------------------------------------------------------------------------------- PRNG
struct Rng {
	std::uint64_t s[4];
	static std::uint64_t splitmix(std::uint64_t& x) { std::uint64_t z = (x += 0x9e3779b97f4a7c15ULL); z = (z ^ (z >> 30)) * 0xbf58476d1ce4e5b9ULL; z = (z ^ (z >> 27)) * 0x94d049bb133111ebULL; return z ^ (z >> 31); }
	explicit Rng(std::uint64_t seed = 1) { for(auto& v : s) v = splitmix(seed); }
	Rng(std::uint64_t seed, std::uint64_t stream) { std::uint64_t x = seed * 0x9e3779b97f4a7c15ULL + stream; x = splitmix(x) ^ (stream * 0xd1342543de82ef95ULL); for(auto& v : s) v = splitmix(x); }
	static std::uint64_t rotl(std::uint64_t x, int k) { return (x << k) | (x >> (64 - k)); }
	std::uint64_t operator()() { std::uint64_t const r = rotl(s[1] * 5, 7) * 9, t = s[1] << 17; s[2] ^= s[0]; s[3] ^= s[1]; s[1] ^= s[2]; s[0] ^= s[3]; s[2] ^= t; s[3] = rotl(s[3], 45); return r; }
	L below(L n) { return n <= 0 ? 0 : L((*this)() % std::uint64_t(n)); }  // [0,n)
	L in(L a, L b) { return a + below(b - a + 1); }                       // [a,b]
	bool chance(int num, int den) { return below(den) < num; }
	using result_type = std::uint64_t; static constexpr result_type min() { return 0; } static constexpr result_type max() { return ~result_type{0}; }
};

// ---------------------------------------------------------------------------------------------- JSON string helper
inline std::string jstr(std::string const& s) {
	std::string o = "\"";
	for(unsigned char c : s) { if(c == '"' || c == '\\') { o += '\\'; o += char(c); } else if(c == '\n') o += "\\n"; else if(c == '\t') o += "\\t"; else if(c < 0x20) { char b[8]; std::snprintf(b, sizeof b, "\\u%04x", c); o += b; } else o += char(c); }
	return o + "\"";
}

// ---------------------------------------------------------------------------------------------- run state
struct stop_case {};                      // thrown to abandon the current case after its first violation
struct assertion_failure { std::string site, expr; };  // thrown by vk_assert_fail in throw mode

struct State {
	int out_fd = 1; bool trace = false; std::uint64_t seed = 1; L from = 0, to = 0; L cur_case = -1;
	std::string out_buf;                  // per-case buffered event lines
	char ctx[512] = "";                   // current operation context (printed by death handlers)
	std::string desc;                     // description of the current case (program / history), grows as it runs
	std::uint64_t sig = 1469598103934665603ULL; bool nontrivial = false; L case_viol = 0;
	std::map<std::string, L> counters;
	bool assert_throws = false;           // vk_assert_fail: throw (true) or report+_exit(77) (false)
	bool expect_death = false;            // inside a death-test child
	L total_viol = 0; L samples_left = 3;
	std::vector<std::string> args;        // extra harness args
};
inline State& st() { static State s; return s; }

inline void raw_write(int fd, char const* p, std::size_t n) { while(n) { auto w = ::write(fd, p, n); if(w <= 0) return; p += w; n -= std::size_t(w); } }
inline void emit_now(std::string const& line) { raw_write(st().out_fd, line.data(), line.size()); }
inline void emit(std::string line) { line += '\n'; if(st().trace) emit_now(line); else st().out_buf += line; }
inline void flush() { if(!st().out_buf.empty()) { emit_now(st().out_buf); st().out_buf.clear(); } }

inline void sig_mix(std::uint64_t v) { auto& s = st().sig; s ^= v + 0x9e3779b97f4a7c15ULL + (s << 6) + (s >> 2); s *= 1099511628211ULL; }
inline void sig_mix(char const* t) { std::uint64_t h = 1469598103934665603ULL; for(; *t; ++t) { h ^= std::uint64_t(static_cast<unsigned char>(*t)); h *= 1099511628211ULL; } sig_mix(h); }
inline void nontrivial(bool b = true) { if(b) st().nontrivial = true; }
inline void count(std::string const& c, L n = 1) { st().counters[c] += n; }

// set the current operation context: shows up in death reports and in trace mode
inline void op(char const* kind) { std::snprintf(st().ctx, sizeof st().ctx, "%s", kind); if(st().trace) emit_now(std::string("O ") + kind + "\n"); }
inline void op(std::string const& kind) { op(kind.c_str()); }
inline void describe(std::string const& piece) { st().desc += piece; if(st().trace) emit_now("D " + piece + "\n"); }

// record a violation for the current case; key identifies *what failed* (stable across seeds)
inline void violation(std::string const& key, std::string const& detail, bool stop = true) {
	auto& s = st(); ++s.case_viol; ++s.total_viol;
	std::ostringstream o; o << "V {\"case\":" << s.cur_case << ",\"key\":" << jstr(key) << ",\"detail\":" << jstr(detail) << ",\"ctx\":" << jstr(s.ctx) << ",\"desc\":" << jstr(s.desc) << "}";
	emit(o.str());
	if(stop) throw stop_case{};
}
inline void info(std::string const& key, std::string const& detail) {  // non-verdict observation
	std::ostringstream o; o << "I {\"case\":" << st().cur_case << ",\"key\":" << jstr(key) << ",\"detail\":" << jstr(detail) << "}"; emit(o.str());
}

// ---------------------------------------------------------------------------------------------- assertion-site counters
struct Site { char const* file; int line; L n; };
inline Site* sites() { static Site t[8192] = {}; return t; }
inline void site_hit(char const* file, int line) {
	auto* t = sites(); std::size_t h = (reinterpret_cast<std::uintptr_t>(file) * 31u + std::size_t(line) * 2654435761u) & 8191u;
	for(int probe = 0; probe < 8192; ++probe, h = (h + 1) & 8191u) { if(t[h].file == nullptr) { t[h] = {file, line, 1}; return; } if(t[h].file == file && t[h].line == line) { ++t[h].n; return; } }
}
inline char const* short_file(char const* f) { char const* p = std::strstr(f, "boost/multi/"); return p ? p + 12 : f; }

inline void death_note(char const* why) {  // async-signal-safe-ish: only write()
	char b[900]; int n = std::snprintf(b, sizeof b, "\nVKDEATH case=%ld why=%s ctx=%s\n", st().cur_case, why, st().ctx); if(n > 0) raw_write(2, b, std::size_t(n));
}

}  // namespace vk

#ifdef VK_MAIN
extern "C" void vk_assert_eval(char const* file, int line) noexcept { vk::site_hit(file, line); }
extern "C" [[noreturn]] void vk_assert_fail(char const* expr, char const* file, int line, char const* /*func*/) {
	std::string site = std::string(vk::short_file(file)) + ":" + std::to_string(line);
	if(vk::st().assert_throws) throw vk::assertion_failure{site, expr};
	char b[1200]; int n = std::snprintf(b, sizeof b, "\nVKASSERT site=%s expr=%s\n", site.c_str(), expr); if(n > 0) vk::raw_write(2, b, std::size_t(n));
	vk::death_note("assert"); vk::flush(); ::_exit(77);
}
extern "C" void __asan_on_error() { vk::death_note("asan"); vk::flush(); }
#endif

namespace vk {

inline void on_signal(int sig) {
	char const* why = sig == SIGABRT ? "abort" : sig == SIGFPE ? "fpe" : sig == SIGSEGV ? "segv" : sig == SIGBUS ? "bus" : sig == SIGILL ? "ill" : "signal";
	death_note(why); flush(); ::_exit(sig == SIGABRT ? 86 : 88);
}
inline void on_terminate() {
	char const* what = "terminate";
	death_note(what); flush(); ::_exit(78);
}

// Run f in a forked child; returns exit status (or 1000+signal); captures child's stderr (up to 8 KiB) into err.
template<class F> int fork_run(F&& f, std::string* err = nullptr, int timeout_s = 20) {
	flush(); int pfd[2]; if(::pipe(pfd) != 0) return -1;
	pid_t pid = ::fork();
	if(pid == 0) { ::close(pfd[0]); ::dup2(pfd[1], 2); ::close(pfd[1]); ::alarm(unsigned(timeout_s)); st().out_buf.clear(); int rc = 0; try { rc = f(); } catch(stop_case const&) { rc = 3; } catch(assertion_failure const& a) { std::fprintf(stderr, "VKASSERT site=%s expr=%s\n", a.site.c_str(), a.expr.c_str()); rc = 77; } catch(std::exception const& e) { std::fprintf(stderr, "VKEXC %s\n", e.what()); rc = 4; } catch(...) { std::fprintf(stderr, "VKEXC unknown\n"); rc = 4; } flush(); std::fflush(nullptr); ::_exit(rc); }
	::close(pfd[1]); std::string e; char buf[2048]; for(;;) { auto n = ::read(pfd[0], buf, sizeof buf); if(n <= 0) break; if(e.size() < 8192) e.append(buf, std::size_t(n)); } ::close(pfd[0]);
	int status = 0; ::waitpid(pid, &status, 0); if(err) *err = e;
	if(WIFEXITED(status)) return WEXITSTATUS(status); if(WIFSIGNALED(status)) return 1000 + WTERMSIG(status); return -1;
}

struct Case { L k; Rng rng; };

// main loop: parses --seed S --from a --to b --out path [--trace] [--throw-asserts] [extra...]
inline int main_loop(int argc, char** argv, std::function<void(Case&)> const& run_case) {
	auto& s = st(); std::string out;
	for(int i = 1; i < argc; ++i) { std::string a = argv[i];
		if(a == "--seed" && i + 1 < argc) s.seed = std::strtoull(argv[++i], nullptr, 10);
		else if(a == "--from" && i + 1 < argc) s.from = std::atol(argv[++i]);
		else if(a == "--to" && i + 1 < argc) s.to = std::atol(argv[++i]);
		else if(a == "--out" && i + 1 < argc) out = argv[++i];
		else if(a == "--trace") s.trace = true;
		else s.args.push_back(a);
	}
	if(!out.empty()) { s.out_fd = ::open(out.c_str(), O_WRONLY | O_CREAT | O_APPEND, 0644); if(s.out_fd < 0) { std::perror("open out"); return 2; } }
	std::signal(SIGABRT, on_signal); std::signal(SIGFPE, on_signal); std::signal(SIGILL, on_signal);
#if !defined(__SANITIZE_ADDRESS__)
	std::signal(SIGSEGV, on_signal); std::signal(SIGBUS, on_signal);
#endif
	std::set_terminate(on_terminate);
	for(L k = s.from; k < s.to; ++k) {
		s.cur_case = k; s.desc.clear(); s.sig = 1469598103934665603ULL; s.nontrivial = false; s.case_viol = 0; s.ctx[0] = 0;
		emit_now("B " + std::to_string(k) + "\n");
		Case c{k, Rng(s.seed, std::uint64_t(k))};
		try { run_case(c); }
		catch(stop_case const&) {}
		catch(assertion_failure const& a) { try { violation("assert:" + a.site, "library assertion on in-domain use: " + a.expr + " at " + a.site); } catch(stop_case const&) {} }
		catch(std::exception const& e) { try { violation(std::string("exception:") + s.ctx, std::string("unexpected exception: ") + e.what()); } catch(stop_case const&) {} }
		if(s.samples_left > 0 && s.nontrivial) { --s.samples_left; emit("S {\"case\":" + std::to_string(k) + ",\"desc\":" + jstr(s.desc) + "}"); }
		char b[96]; std::snprintf(b, sizeof b, "E %ld %016llx %d %ld", k, static_cast<unsigned long long>(s.sig), s.nontrivial ? 1 : 0, s.case_viol); emit(b);
		flush();
	}
	s.cur_case = -1;
	std::ostringstream z; z << "Z {\"counters\":{"; bool first = true; for(auto& [k2, v] : s.counters) { z << (first ? "" : ",") << jstr(k2) << ":" << v; first = false; }
	z << "},\"assert_sites\":{"; first = true; auto* t = sites(); for(int i = 0; i < 8192; ++i) if(t[i].file) { z << (first ? "" : ",") << jstr(std::string(short_file(t[i].file)) + ":" + std::to_string(t[i].line)) << ":" << t[i].n; first = false; }
	z << "}}"; emit_now(z.str() + "\n");
	return 0;
}

template<class T> std::string join(std::vector<T> const& v, char const* sep = ",") { std::ostringstream o; for(std::size_t i = 0; i < v.size(); ++i) { if(i) o << sep; o << v[i]; } return o.str(); }

}  // namespace vk
