// operands.hpp — catalogue of source operands with prescribed logical extents and values, laid out in different ways.
#pragma once
#include "viewprog.hpp"
#include <string>

namespace vk {

template<class T> T mkval(int tag, L k) { if constexpr(std::is_arithmetic_v<T>) { return T(tag * 1000000 + k); } else { return T(std::string(18, char('a' + tag)) + std::to_string(k)); } }
template<class T> T poison() { if constexpr(std::is_arithmetic_v<T>) { return T(-9); } else { return T("poison-poison-poison-poison"); } }

constexpr int NSRC = 8;
inline char const* src_name(int k) { static char const* n[] = {"array", "transposed-storage", "padded-block", "strided-of-doubled", "unrotated-storage", "rotated-storage", "reversed-storage", "subarray()"}; return n[k % NSRC]; }

// Build a mutable operand of logical extents e whose k-th element (canonical order) is mkval<T>(tag,k), with the given layout kind, and call
// f(operand_lvalue, model_into_its_storage, storage_base_ptr, storage_size). Storage outside the operand holds poison<T>().
template<int D, class T, class F> bool with_source(int kind, std::vector<L> const& e, int tag, F&& f) {
	auto fillm = [&](T* base, MV const& mv) { for(L k = 0; k < mv.n(); ++k) base[mv.off[std::size_t(k)]] = mkval<T>(tag, k); };
	kind %= NSRC;
	if constexpr(D == 0) { (void)kind; multi::array<T, 0> A(mkval<T>(tag, 0)); MV mv; mv.off = {0}; f(A, mv, A.data_elements(), L(1)); return true; }
	else {
		switch(kind) {
		case 1: if constexpr(D >= 2) { auto te = e; std::swap(te[0], te[1]); multi::array<T, D> S(make_extensions<D>(te), poison<T>()); MV mv = m_transposed(MV::root(te)); fillm(S.data_elements(), mv); auto&& v = S.transposed(); f(v, mv, S.data_elements(), S.num_elements()); return true; } break;
		case 2: { auto pe = e; for(auto& s : pe) s += 2; multi::array<T, D> P(make_extensions<D>(pe), poison<T>()); std::vector<CallArg> as; for(int d = 0; d < D; ++d) as.push_back(CallArg{1, 1, e[std::size_t(d)] + 1}); MV mv = m_call(MV::root(pe), as); fillm(P.data_elements(), mv);
			std::array<multi::irange, std::size_t(D)> rs; for(int d = 0; d < D; ++d) rs[std::size_t(d)] = multi::irange{1, e[std::size_t(d)] + 1};
			std::apply([&](auto... r) { auto&& v = P(r...); f(v, mv, P.data_elements(), P.num_elements()); }, rs); return true; }
		case 3: { auto se = e; se[0] *= 2; multi::array<T, D> S(make_extensions<D>(se), poison<T>()); MV mv = m_strided(MV::root(se), 2); fillm(S.data_elements(), mv); auto&& v = S.strided(2); f(v, mv, S.data_elements(), S.num_elements()); return true; }
		case 4: if constexpr(D >= 2) { std::vector<L> ue(e.begin() + 1, e.end()); ue.push_back(e[0]); multi::array<T, D> U(make_extensions<D>(ue), poison<T>()); MV mv = m_unrotated(MV::root(ue)); fillm(U.data_elements(), mv); auto&& v = U.unrotated(); f(v, mv, U.data_elements(), U.num_elements()); return true; } break;
		case 5: if constexpr(D >= 2) { std::vector<L> ue{e.back()}; ue.insert(ue.end(), e.begin(), e.end() - 1); multi::array<T, D> U(make_extensions<D>(ue), poison<T>()); MV mv = m_rotated(MV::root(ue)); fillm(U.data_elements(), mv); auto&& v = U.rotated(); f(v, mv, U.data_elements(), U.num_elements()); return true; } break;
		case 6: if constexpr(D >= 2) { auto re = e; std::reverse(re.begin(), re.end()); multi::array<T, D> Rv(make_extensions<D>(re), poison<T>()); MV mv = m_reversed(MV::root(re)); fillm(Rv.data_elements(), mv); auto&& v = Rv.unrotated(); (void)v;
			// reversed() of a mutable lvalue yields a read-only view on the pinned tree: compose rotations instead (D==2: transposed; D==3: rotated+transposed ...) — only D==2 handled here
			if constexpr(D == 2) { auto&& w = Rv.transposed(); f(w, mv, Rv.data_elements(), Rv.num_elements()); return true; } } break;
		case 7: { multi::array<T, D> A(make_extensions<D>(e), poison<T>()); MV mv = MV::root(e); fillm(A.data_elements(), mv); auto&& v = A(); f(v, mv, A.data_elements(), A.num_elements()); return true; }
		default: break;
		}
		multi::array<T, D> A(make_extensions<D>(e), poison<T>()); MV mv = MV::root(e); fillm(A.data_elements(), mv); f(A, mv, A.data_elements(), A.num_elements()); return true;
	}
}

}  // namespace vk
