// tracked.hpp — instrumented element (live-object registry, special-member counters, fail points) and instrumented allocator (ledger).
#pragma once
#include "vk.hpp"
#include <unordered_map>
#include <unordered_set>
#include <new>
#include <memory>

namespace vk {

struct injected_fault : std::exception { char const* what() const noexcept override { return "vk injected fault"; } };

// ---- fail points: the k-th event of a kind throws (k counted from 1; 0 = disabled)
struct Faults {
	long alloc_at = 0, copy_ctor_at = 0, move_ctor_at = 0, copy_assign_at = 0, move_assign_at = 0, value_ctor_at = 0, default_ctor_at = 0;
	long n_alloc = 0, n_copy_ctor = 0, n_move_ctor = 0, n_copy_assign = 0, n_move_assign = 0, n_value_ctor = 0, n_default_ctor = 0;
	bool fired = false;
	void reset_counts() { n_alloc = n_copy_ctor = n_move_ctor = n_copy_assign = n_move_assign = n_value_ctor = n_default_ctor = 0; fired = false; }
	void disarm() { alloc_at = copy_ctor_at = move_ctor_at = copy_assign_at = move_assign_at = value_ctor_at = default_ctor_at = 0; }
};
inline Faults& faults() { static Faults f; return f; }
inline void fault_point(long& n, long at) { ++n; if(at != 0 && n == at) { faults().fired = true; throw injected_fault{}; } }

// ---- registry of live tracked objects
struct Registry {
	std::unordered_set<void const*> live;
	long cc = 0, mc = 0, ca = 0, ma = 0, dc = 0, vc = 0, dtor = 0;  // copy-ctor, move-ctor, copy-assign, move-assign, default-ctor, value-ctor, destructor
	long special() const { return cc + mc + ca + ma; }
	void reset() { live.clear(); cc = mc = ca = ma = dc = vc = dtor = 0; }
};
inline Registry& registry() { static Registry r; return r; }

// soft violations (never throw: may be raised from destructors / noexcept functions); the harness polls st().case_viol.
// The key is <prop>:<current operation kind>:<symptom>; a harness may install a filter (e.g. to select one property, or to drop
// consequences of an earlier violation of the same case).
struct SoftCfg { std::string opk = "?"; std::function<void(std::string const& prop, std::string const& key, std::string const& detail)> sink; };
inline SoftCfg& softcfg() { static SoftCfg c; return c; }
inline void soft(std::string const& propsym, std::string const& detail) {  // propsym = "C08:symptom"
	std::string prop = propsym.substr(0, 3), key = prop + ":" + softcfg().opk + propsym.substr(3);
	if(softcfg().sink) softcfg().sink(prop, key, detail); else if(st().case_viol == 0) violation(key, detail, false);
}

template<class V> struct tracked {
	V v; unsigned cookie;
	static constexpr unsigned ALIVE = 0xC0FFEE01u, DEAD = 0xDEADDEADu;
	void born() { if(!registry().live.insert(this).second) soft("C08:construct-over-live-object", "an element was constructed at an address that already holds a live element"); cookie = ALIVE; }
	void chk(char const* what) const { if(cookie != ALIVE || !registry().live.count(this)) soft(std::string("C08:use-of-dead-object:") + what, std::string("an element that is not alive was ") + what); }
	tracked() : v{} { fault_point(faults().n_default_ctor, faults().default_ctor_at); born(); ++registry().dc; }
	tracked(V x) : v{std::move(x)} { fault_point(faults().n_value_ctor, faults().value_ctor_at); born(); ++registry().vc; }  // NOLINT implicit on purpose (convertible element type)
	tracked(tracked const& o) : v{o.v} { o.chk("copied from"); fault_point(faults().n_copy_ctor, faults().copy_ctor_at); born(); ++registry().cc; }
	tracked(tracked&& o) noexcept(false) : v{o.v} { o.chk("moved from"); fault_point(faults().n_move_ctor, faults().move_ctor_at); born(); ++registry().mc; }
	tracked& operator=(tracked const& o) { chk("assigned to"); o.chk("copied from"); fault_point(faults().n_copy_assign, faults().copy_assign_at); v = o.v; ++registry().ca; return *this; }
	tracked& operator=(tracked&& o) noexcept(false) { chk("assigned to"); o.chk("moved from"); fault_point(faults().n_move_assign, faults().move_assign_at); v = o.v; ++registry().ma; return *this; }
	~tracked() { if(cookie != ALIVE || !registry().live.erase(this)) soft("C08:destroy-of-dead-object", "an element that is not alive was destroyed (double destruction or destruction of raw storage)"); cookie = DEAD; ++registry().dtor; }
	V const& get() const { chk("read"); return v; }
	friend bool operator==(tracked const& a, tracked const& b) { return a.get() == b.get(); }
	friend bool operator!=(tracked const& a, tracked const& b) { return !(a == b); }
	friend bool operator<(tracked const& a, tracked const& b) { return a.get() < b.get(); }
};

// the same lifetime tracking for an element type whose copy/move ASSIGNMENT is trivial (defaulted): construction and destruction are observed,
// assignment is not - a container that picks "assign into raw storage" for trivially assignable types constructs nothing and still destroys everything
template<class V> struct tracked_ta {
	V v; unsigned cookie;
	static constexpr unsigned ALIVE = 0xC0FFEE02u, DEAD = 0xDEADDEADu;
	void born() { if(!registry().live.insert(this).second) soft("C08:construct-over-live-object", "an element was constructed at an address that already holds a live element"); cookie = ALIVE; }
	tracked_ta() : v{} { born(); ++registry().dc; }
	tracked_ta(V x) : v{std::move(x)} { born(); ++registry().vc; }  // NOLINT implicit on purpose
	tracked_ta(tracked_ta const& o) : v{o.v} { born(); ++registry().cc; }
	tracked_ta(tracked_ta&& o) noexcept : v{o.v} { born(); ++registry().mc; }
	tracked_ta& operator=(tracked_ta const&) = default;
	tracked_ta& operator=(tracked_ta&&) = default;
	~tracked_ta() { if(!registry().live.erase(this)) soft("C08:destroy-of-dead-object", "an element that was never constructed (or is already destroyed) was destroyed"); ++registry().dtor; }
	V const& get() const { return v; }
	friend bool operator==(tracked_ta const& a, tracked_ta const& b) { return a.v == b.v; }
	friend bool operator!=(tracked_ta const& a, tracked_ta const& b) { return !(a == b); }
	friend bool operator<(tracked_ta const& a, tracked_ta const& b) { return a.v < b.v; }
};
static_assert(std::is_trivially_copy_assignable_v<tracked_ta<int>> && !std::is_trivially_default_constructible_v<tracked_ta<int>> && !std::is_trivially_destructible_v<tracked_ta<int>>);

// ---- ledger of allocations
struct Block { std::size_t n; std::size_t bytes; int id; };
struct Ledger {
	std::unordered_map<void*, Block> blocks; long n_alloc = 0, n_dealloc = 0; long bytes_out = 0;
	void reset() { for(auto& kv : blocks) ::operator delete(kv.first); blocks.clear(); n_alloc = n_dealloc = 0; bytes_out = 0; }
};
inline Ledger& ledger() { static Ledger l; return l; }

constexpr unsigned char POISON_BYTE = 0xA5;

// TR bits: 1 = POCCA, 2 = POCMA, 4 = POCS, 8 = is_always_equal
template<class T, int TR = 0> struct ledger_alloc {
	using value_type = T;
	using propagate_on_container_copy_assignment = std::integral_constant<bool, (TR & 1) != 0>;
	using propagate_on_container_move_assignment = std::integral_constant<bool, (TR & 2) != 0>;
	using propagate_on_container_swap = std::integral_constant<bool, (TR & 4) != 0>;
	using is_always_equal = std::integral_constant<bool, (TR & 8) != 0>;
	template<class U> struct rebind { using other = ledger_alloc<U, TR>; };
	int id = 0; int gen = 0;  // gen counts select_on_container_copy_construction hops (not part of equality)
	ledger_alloc() = default;
	explicit ledger_alloc(int i, int g = 0) : id{i}, gen{g} {}
	template<class U> ledger_alloc(ledger_alloc<U, TR> const& o) : id{o.id}, gen{o.gen} {}  // NOLINT
	ledger_alloc select_on_container_copy_construction() const { return ledger_alloc(id, gen + 1); }
	T* allocate(std::size_t n) {
		fault_point(faults().n_alloc, faults().alloc_at);
		void* p = ::operator new(n * sizeof(T) + 1); std::memset(p, POISON_BYTE, n * sizeof(T) + 1);
		ledger().blocks[p] = Block{n, n * sizeof(T), id}; ++ledger().n_alloc; ledger().bytes_out += long(n * sizeof(T));
		return static_cast<T*>(p);
	}
	void deallocate(T* p, std::size_t n) noexcept {
		auto it = ledger().blocks.find(p);
		if(it == ledger().blocks.end()) { soft("C08:deallocate-unknown-block", "deallocate of a pointer that is not an outstanding block (double free or foreign pointer), n=" + std::to_string(n)); return; }
		if(it->second.bytes != n * sizeof(T)) soft("C08:deallocate-size-mismatch", "block allocated with " + std::to_string(it->second.n) + " elements is deallocated with n=" + std::to_string(n));
		if(!is_always_equal::value && it->second.id != id) { soft("C10:foreign-deallocate", "block produced by allocator #" + std::to_string(it->second.id) + " released through allocator #" + std::to_string(id));
			soft("C08:block-never-returned-to-its-allocator", "allocator #" + std::to_string(it->second.id) + " never gets back a block it issued (it is handed to allocator #" + std::to_string(id) + ", which did not issue it)"); }
		ledger().bytes_out -= long(it->second.bytes); ledger().blocks.erase(it); ++ledger().n_dealloc; ::operator delete(p);
	}
	friend bool operator==(ledger_alloc const& a, ledger_alloc const& b) { return is_always_equal::value || a.id == b.id; }
	friend bool operator!=(ledger_alloc const& a, ledger_alloc const& b) { return !(a == b); }
};

template<class T> bool is_poison(T const& x) { auto const* p = reinterpret_cast<unsigned char const*>(&x); for(std::size_t i = 0; i < sizeof(T); ++i) if(p[i] != POISON_BYTE) return false; return true; }

}  // namespace vk
