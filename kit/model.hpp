// model.hpp — table model of a view: sizes + offset-into-root of every index tuple in canonical order.
// Operations are gathers written from the documented index mappings (never from stride algebra).
#pragma once
#include "vk.hpp"
#include <algorithm>
#include <numeric>

namespace vk {

constexpr int MAXD = 5;

struct MV {
	std::vector<L> size;  // extents of the view (zero-based model)
	std::vector<L> off;   // for each index tuple (canonical order, last index fastest): offset into the root storage
	int D() const { return int(size.size()); }
	L n() const { L r = 1; for(auto s : size) r *= s; return r; }
	bool has_zero() const { for(auto s : size) if(s == 0) return true; return false; }
	L lin(std::vector<L> const& ix) const { L r = 0; for(std::size_t k = 0; k < size.size(); ++k) r = r * size[k] + ix[k]; return r; }
	void unlin(L k, std::vector<L>& ix) const { ix.resize(size.size()); for(int d = D() - 1; d >= 0; --d) { ix[std::size_t(d)] = k % size[std::size_t(d)]; k /= size[std::size_t(d)]; } }
	static MV root(std::vector<L> const& sz) { MV m; m.size = sz; m.off.resize(std::size_t(m.n())); std::iota(m.off.begin(), m.off.end(), L{0}); return m; }
	std::string shape() const { return join(size, "x"); }
};

// new view of extents nsize whose index tuple ix designates the old element at f(ix)
template<class F> MV gather(MV const& o, std::vector<L> const& nsize, F f) {
	MV r; r.size = nsize; L N = r.n(); r.off.resize(std::size_t(N)); std::vector<L> ix(nsize.size(), 0);
	for(L k = 0; k < N; ++k) { r.unlin(k, ix); r.off[std::size_t(k)] = o.off[std::size_t(o.lin(f(ix)))]; }
	return r;
}

inline std::vector<L> cat(std::vector<L> a, std::vector<L> const& b) { a.insert(a.end(), b.begin(), b.end()); return a; }
inline std::vector<L> rest(MV const& m, std::size_t from) { return std::vector<L>(m.size.begin() + std::ptrdiff_t(from), m.size.end()); }

// ---- documented index mappings -------------------------------------------------------------------
inline MV m_index(MV const& m, L i) { return gather(m, rest(m, 1), [&](std::vector<L> const& ix) { return cat({i}, ix); }); }
inline MV m_sliced(MV const& m, L a, L b) { return gather(m, cat({b - a}, rest(m, 1)), [&](std::vector<L> ix) { ix[0] += a; return ix; }); }
inline MV m_strided(MV const& m, L s) { return gather(m, cat({m.size[0] / s}, rest(m, 1)), [&](std::vector<L> ix) { ix[0] *= s; return ix; }); }
inline MV m_strided_ceil(MV const& m, L s) { return gather(m, cat({(m.size[0] + s - 1) / s}, rest(m, 1)), [&](std::vector<L> ix) { ix[0] *= s; return ix; }); }
inline MV m_sliced_neg(MV const& m, L first, L last, L s) { return gather(m, cat({(first - last) / s}, rest(m, 1)), [&](std::vector<L> ix) { ix[0] = first - ix[0] * s; return ix; }); }  // sliced(first, last, -s), first > last
inline MV m_dropped(MV const& m, L n) { return m_sliced(m, n, m.size[0]); }
inline MV m_taked(MV const& m, L n) { return m_sliced(m, 0, n); }
inline MV m_rotated(MV const& m) { auto ns = rest(m, 1); ns.push_back(m.size[0]);
	return gather(m, ns, [&](std::vector<L> const& ix) { std::vector<L> o(ix.size()); o[0] = ix.back(); for(std::size_t k = 1; k < ix.size(); ++k) o[k] = ix[k - 1]; return o; }); }
inline MV m_unrotated(MV const& m) { std::vector<L> ns{m.size.back()}; ns.insert(ns.end(), m.size.begin(), m.size.end() - 1);
	return gather(m, ns, [&](std::vector<L> const& ix) { std::vector<L> o(ix.size()); for(std::size_t k = 0; k + 1 < ix.size(); ++k) o[k] = ix[k + 1]; o.back() = ix[0]; return o; }); }
inline MV m_transposed(MV const& m) { auto ns = m.size; std::swap(ns[0], ns[1]); return gather(m, ns, [&](std::vector<L> ix) { std::swap(ix[0], ix[1]); return ix; }); }
inline MV m_reversed(MV const& m) { auto ns = m.size; std::reverse(ns.begin(), ns.end()); return gather(m, ns, [&](std::vector<L> ix) { std::reverse(ix.begin(), ix.end()); return ix; }); }
inline MV m_diagonal(MV const& m) { L q = std::min(m.size[0], m.size[1]); return gather(m, cat({q}, rest(m, 2)), [&](std::vector<L> ix) { ix.insert(ix.begin(), ix[0]); return ix; }); }
inline MV m_partitioned(MV const& m, L n) { L q = m.size[0] / n; return gather(m, cat({n, q}, rest(m, 1)), [&](std::vector<L> ix) { L i = ix[0] * q + ix[1]; ix.erase(ix.begin()); ix[0] = i; return ix; }); }
inline MV m_chunked(MV const& m, L c) { return m_partitioned(m, m.size[0] / c); }
inline bool m_flattable(MV const& m) {  // the two leading dimensions are laid out contiguously w.r.t. each other (decided on the model's offsets)
	L s0 = m.size[0], s1 = m.size[1]; if(m.has_zero()) return false; if(s0 <= 1) return true; if(s1 < 2) return false;
	L sub = m.n() / s0 / s1; L step1 = m.off[std::size_t(sub)] - m.off[0];
	for(L i = 0; i + 1 < s0; ++i) if(m.off[std::size_t((i + 1) * s1 * sub)] - m.off[std::size_t(i * s1 * sub)] != s1 * step1) return false;
	return true;
}
inline MV m_flatted(MV const& m) { L s1 = m.size[1]; return gather(m, cat({m.size[0] * s1}, rest(m, 2)), [&](std::vector<L> ix) { L i = ix[0]; ix[0] = i % s1; ix.insert(ix.begin(), i / s1); return ix; }); }

// call syntax: per-dimension argument: kind 0 = index i, 1 = range [a,b), 2 = all; fewer args than D means trailing "all"
struct CallArg { int kind; L a, b; int dim = 0; };
inline MV m_call(MV const& m, std::vector<CallArg> const& args) {
	std::vector<L> ns; std::vector<int> src;  // for each new dim: which old dim
	for(std::size_t d = 0; d < m.size.size(); ++d) { CallArg c = d < args.size() ? args[d] : CallArg{2, 0, 0};
		if(c.kind == 1) { ns.push_back(c.b - c.a); src.push_back(int(d)); } else if(c.kind == 2) { ns.push_back(m.size[d]); src.push_back(int(d)); } }
	return gather(m, ns, [&](std::vector<L> const& ix) { std::vector<L> o(m.size.size()); std::size_t q = 0;
		for(std::size_t d = 0; d < m.size.size(); ++d) { CallArg c = d < args.size() ? args[d] : CallArg{2, 0, 0}; if(c.kind == 0) o[d] = c.a; else if(c.kind == 1) o[d] = c.a + ix[q++]; else o[d] = ix[q++]; }
		return o; });
}

}  // namespace vk
