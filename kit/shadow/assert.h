// shadow <cassert>/<assert.h> (re-includable like the real one): counts evaluations per site, routes failures to the harness.
#undef assert
#ifdef NDEBUG
#define assert(e) (static_cast<void>(0))
#else
extern "C" void vk_assert_eval(char const* file, int line) noexcept;
extern "C" [[noreturn]] void vk_assert_fail(char const* expr, char const* file, int line, char const* func);
#define assert(e) ((__builtin_is_constant_evaluated() ? static_cast<void>(0) : vk_assert_eval(__FILE__, __LINE__)), ((e) ? static_cast<void>(0) : vk_assert_fail(#e, __FILE__, __LINE__, __extension__ __PRETTY_FUNCTION__)))
#endif
