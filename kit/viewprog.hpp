// viewprog.hpp — E-VIEW: continuation-passing interpreter of view programs over a real view and its table model.
// A visitor observes (view, model) after every step; the interpreter itself decides domains on the model only.
#pragma once
#include <limits>
#include "model.hpp"
#include <boost/multi/array.hpp>
#include <utility>

namespace vk {
namespace multi = boost::multi;

enum OpKind : int { K_INDEX, K_SLICED, K_STRIDED, K_DROPPED, K_TAKED, K_ROTATED, K_UNROTATED, K_TRANSPOSED, K_REVERSED, K_DIAGONAL, K_PARTITIONED, K_CHUNKED, K_FLATTED, K_CALL, K_HALVED, K_SLICED3, K_PAREN, K_TILDE, K_RANGE, K_REINDEXED, K_BLOCKED, K_STENCILED, K_NKINDS };
inline char const* op_name(int k) { static char const* n[] = {"index", "sliced", "strided", "dropped", "taked", "rotated", "unrotated", "transposed", "reversed", "diagonal", "partitioned", "chunked", "flatted", "call", "halved", "sliced3", "paren", "tilde", "range", "reindexed", "blocked", "stenciled", "?"}; return n[k < 0 || k > K_NKINDS ? K_NKINDS : k]; }

struct Op { int kind; L a, b, c; int cat; };  // cat: 0 lvalue, 1 const lvalue, 2 rvalue
struct Prog { std::vector<L> root; std::vector<Op> ops; };

constexpr unsigned long REBASING_KINDS = (1UL << K_REINDEXED) | (1UL << K_BLOCKED) | (1UL << K_STENCILED);
struct GenCfg { int maxD = 4; int min_ext = 1; int max_ext = 5; int max_ops = 6; int zero_pct = 0; unsigned long kind_mask = ~REBASING_KINDS; };  // index-base changing operations are only enabled by C19

inline Prog gen_prog(Rng& g, GenCfg const& c, int D = 0) {
	Prog p; if(D == 0) D = int(g.in(1, c.maxD));
	for(int d = 0; d < D; ++d) { L e = g.in(c.min_ext, c.max_ext); if(c.zero_pct && g.below(100) < c.zero_pct) e = 0; p.root.push_back(e); }
	int n = int(g.in(1, c.max_ops));
	for(int i = 0; i < n; ++i) { int k; do { k = int(g.below(K_NKINDS)); } while(!((c.kind_mask >> k) & 1UL)); p.ops.push_back(Op{k, g.below(1000), g.below(1000), g.below(1000), int(g.below(3))}); }
	return p;
}

template<class V> constexpr int rank_of = int(std::decay_t<V>::rank_v);
template<class V, class DV = std::decay_t<V>> inline constexpr bool is_mutable_view = std::is_base_of_v<multi::subarray<typename DV::element_type, DV::rank_v, typename DV::element_ptr, typename DV::layout_type>, DV>;

// dispatch on value category: f is called with v as lvalue / const lvalue / rvalue
template<class V, class F> void with_cat(V& v, int cat, F&& f) {
	if(cat == 1) { f(std::as_const(v)); } else if(cat == 2) { f(std::move(v)); } else { f(v); }
}

// `strided/dropped/taked/reversed() const&` of D>1 views do not compile on the pinned tree (their declared return type
// basic_const_array cannot be built from the const_subarray they compute): the const category is mapped to lvalue for those,
// and they are skipped altogether when the object itself is const-qualified. Reported in evidence (DESIGN section 1 (i)).
template<class V, class F> bool with_cat_nc(V& v, int cat, F&& f) {
	if constexpr(rank_of<V> > 1) { if constexpr(std::is_const_v<V>) { (void)v; (void)cat; (void)f; return false; } else { if(cat == 2) { f(std::move(v)); } else { f(v); } return true; } }
	else { with_cat(v, cat, std::forward<F>(f)); return true; }
}

// RB (re-based mode, C19): index-taking operations receive reported_first + relative index; the model stays the zero-based twin.
template<class V, class F> void with_cat_mut(V& v, int cat, F&& f) { if(cat == 2) { f(std::move(v)); } else { f(v); } }  // never the const category

template<class Vis, bool RB = false> struct Interp {
	Vis& vis; Prog const& prog;

	template<class V> void run(V&& v, MV const& m, std::size_t pc, char const* last_op) {
		vis.at(v, m, last_op);  // step-wise monitoring: observe after every operation (first-divergence attribution)
		if(pc >= prog.ops.size()) { vis.final(std::forward<V>(v), m); return; }
		step(std::forward<V>(v), m, pc);
	}

	template<class V> void step(V&& v, MV const& m, std::size_t pc) {
		constexpr int D = rank_of<V>;
		Op const& o = prog.ops[pc]; L const s0 = m.size[0]; bool const empty = m.has_zero();
		L want_first = std::numeric_limits<L>::min();  // RB mode: the leading first index the zero-based twin's result has, shifted (set for taked(n) only: it keeps the leading indices [f, f+n) for every rank and value category on the pinned tree; sliced/dropped of 1-D expiring views re-base their result to 0 there, so the result's index base of those is observed, not judged)
		auto next = [&](auto&& nv, MV const& nm, std::string const& text) {
			if constexpr(RB) { if(want_first != std::numeric_limits<L>::min() && !nm.has_zero()) { L const got = L(nv.extension().first()); count("result-first-index-checks");
				if(got != want_first) violation(std::string("C19:") + op_name(o.kind) + ":result-first-index", text + " of a view whose leading indices start at " + std::to_string(L(v.extension().first())) + " yields a view whose leading indices start at " + std::to_string(got) + "; the zero-based twin shifted by the base starts at " + std::to_string(want_first)); } }
			describe(" " + text); sig_mix(std::uint64_t(o.kind) * 4 + std::uint64_t(o.cat)); count(std::string("op:") + op_name(o.kind));
			run(std::forward<decltype(nv)>(nv), nm, pc + 1, op_name(o.kind));
		};
		auto cs = [&](char const* n) { static char const* c[] = {"", "c.", "m."}; return std::string(c[o.cat]) + n; };
		auto S = [](L x) { return std::to_string(x); };
		op(op_name(o.kind));
		L f0 = 0; std::vector<L> fs(std::size_t(D), 0);
		if constexpr(RB) { if(!empty) { f0 = L(v.extension().first()); std::size_t q = 0; std::apply([&](auto const&... x) { ((fs[q++] = L(x.first())), ...); }, v.extensions().base()); } }
		// Empty shapes: the library collapses the sizes of empty arrays/views (e.g. {3,0} reports (0,0)), so the model cannot decide
		// the domain of index-taking operations there; only argument-free operations (and sliced(0,0)) are applied to empty views.
		if(empty && !(o.kind == K_ROTATED || o.kind == K_UNROTATED || o.kind == K_TRANSPOSED || o.kind == K_TILDE || o.kind == K_REVERSED || o.kind == K_PAREN || o.kind == K_SLICED)) { run(std::forward<V>(v), m, pc + 1, "skip"); return; }
		switch(o.kind) {
		case K_INDEX: if constexpr(D > 1) { if(s0 > 0) { L i = o.a % s0; MV nm = m_index(m, i);
			with_cat(v, o.cat, [&](auto&& vv) { next(std::forward<decltype(vv)>(vv)[f0 + i], nm, cs("[") + S(f0 + i) + "]"); }); return; } } break;
		case K_SLICED: { L a = s0 ? o.a % (s0 + 1) : 0; L b = a + (o.b % (s0 - a + 1)); if(a == b && o.c % 4 != 0 && s0 > 0) { a = o.a % s0; b = a + 1 + o.b % (s0 - a); }  // mostly non-empty
			if(empty) { a = 0; b = 0; } MV nm = m_sliced(m, a, b);
			with_cat(v, o.cat, [&](auto&& vv) { next(std::forward<decltype(vv)>(vv).sliced(f0 + a, f0 + b), nm, cs("sliced(") + S(f0 + a) + "," + S(f0 + b) + ")"); }); return; }
		case K_STRIDED: { L s = 1 + o.a % 3; if(s0 > 0 && s0 % s == 0) { MV nm = m_strided(m, s);
			if(with_cat_nc(v, o.cat, [&](auto&& vv) { next(std::forward<decltype(vv)>(vv).strided(s), nm, cs("strided(") + S(s) + ")"); })) return; } } break;
		case K_DROPPED: { L n = o.a % (s0 + 1); if(n == s0 && o.c % 4 != 0 && s0 > 0) n = o.a % s0; if(empty) break; MV nm = m_dropped(m, n);
			if(with_cat_nc(v, o.cat, [&](auto&& vv) { next(std::forward<decltype(vv)>(vv).dropped(n), nm, cs("dropped(") + S(n) + ")"); })) return; break; }
		case K_TAKED: { L n = o.a % (s0 + 1); if(n == 0 && o.c % 4 != 0 && s0 > 0) n = 1 + o.a % s0; if(empty) break; MV nm = m_taked(m, n);
			if(n > 0) want_first = f0;
			if constexpr(D == 1) { with_cat(v, o.cat, [&](auto&& vv) { next(std::forward<decltype(vv)>(vv).taked(n), nm, cs("taked(") + S(n) + ")"); }); return; }
			else if constexpr(is_mutable_view<V> && !std::is_const_v<std::remove_reference_t<V>>) { if(with_cat_nc(v, o.cat, [&](auto&& vv) { next(std::forward<decltype(vv)>(vv).taked(n), nm, cs("taked(") + S(n) + ")"); })) return; }
			break; }
		case K_ROTATED: { MV nm = m_rotated(m); with_cat(v, o.cat, [&](auto&& vv) { next(std::forward<decltype(vv)>(vv).rotated(), nm, cs("rotated")); }); return; }
		case K_UNROTATED: { MV nm = m_unrotated(m); with_cat(v, o.cat, [&](auto&& vv) { next(std::forward<decltype(vv)>(vv).unrotated(), nm, cs("unrotated")); }); return; }
		case K_TRANSPOSED: if constexpr(D > 1) { MV nm = m_transposed(m); with_cat(v, o.cat, [&](auto&& vv) { next(std::forward<decltype(vv)>(vv).transposed(), nm, cs("transposed")); }); return; } break;
		case K_TILDE: if constexpr(D > 1) { MV nm = m_transposed(m); with_cat(v, o.cat, [&](auto&& vv) { next(~std::forward<decltype(vv)>(vv), nm, cs("~")); }); return; } break;
		case K_REVERSED: { MV nm = m_reversed(m); if(with_cat_nc(v, o.cat, [&](auto&& vv) { next(std::forward<decltype(vv)>(vv).reversed(), nm, cs("reversed")); })) return; break; }
		case K_DIAGONAL: if constexpr(D > 1) { if(empty) break; MV nm = m_diagonal(m); with_cat(v, o.cat, [&](auto&& vv) { next(std::forward<decltype(vv)>(vv).diagonal(), nm, cs("diagonal")); }); return; } break;
		case K_PARTITIONED: if constexpr(D < MAXD) { L n = 1 + o.a % 3; if(!empty && s0 % n == 0) { MV nm = m_partitioned(m, n);
			with_cat(v, o.cat, [&](auto&& vv) { next(std::forward<decltype(vv)>(vv).partitioned(n), nm, cs("partitioned(") + S(n) + ")"); }); return; } } break;
		case K_CHUNKED: if constexpr(D < MAXD) { L c = 1 + o.a % 3; if(!empty && s0 % c == 0) { MV nm = m_chunked(m, c);
			with_cat(v, o.cat, [&](auto&& vv) { next(std::forward<decltype(vv)>(vv).chunked(c), nm, cs("chunked(") + S(c) + ")"); }); return; } } break;
		case K_HALVED: if constexpr(D < MAXD) { if(!empty && s0 % 2 == 0) { MV nm = m_partitioned(m, 2);
			with_cat(v, o.cat, [&](auto&& vv) { next(std::forward<decltype(vv)>(vv).halved(), nm, cs("halved")); }); return; } } break;
		case K_FLATTED: if constexpr(D > 1) { if(m_flattable(m)) { MV nm = m_flatted(m);
			with_cat(v, o.cat, [&](auto&& vv) { next(std::forward<decltype(vv)>(vv).flatted(), nm, cs("flatted")); }); return; } } break;
		case K_SLICED3: { if(empty) break;
			if constexpr(D == 1 && !RB) { if(o.b % 2 == 1 && s0 >= 2) {  // negative stride (1-D only: the D>1 overload asserts first <= last): sliced(first, last, -s), elements first, first-s, ... > last
				L const s = 1 + o.c % 2; L first = o.a % s0; if(first < s) first = s0 - 1; if(first >= s) { L const q = 1 + o.c % (first / s); L const last = first - q * s; MV nm = m_sliced_neg(m, first, last, s); count("negative-stride-slices");
					with_cat(v, o.cat, [&](auto&& vv) { next(std::forward<decltype(vv)>(vv).sliced(first, last, -s), nm, cs("sliced(") + S(first) + "," + S(last) + ",-" + S(s) + ")"); }); return; } } }
			L a = o.a % s0; L s = 1 + o.c % 3; L q = 1 + o.b % ((s0 - a + s - 1) / s); L b = a + q * s; if(b > s0) { b = s0; if((b - a) % s != 0) break; }
			MV nm = m_strided(m_sliced(m, a, b), s);
			with_cat(v, o.cat, [&](auto&& vv) { next(std::forward<decltype(vv)>(vv).sliced(f0 + a, f0 + b, s), nm, cs("sliced(") + S(f0 + a) + "," + S(f0 + b) + "," + S(s) + ")"); }); return; }
		case K_PAREN: { with_cat(v, o.cat, [&](auto&& vv) { next(std::forward<decltype(vv)>(vv)(), m, cs("()")); }); return; }
		case K_RANGE: { if(empty) break; L a = o.a % s0; L b = a + 1 + o.b % (s0 - a); MV nm = m_sliced(m, a, b);
			with_cat(v, o.cat, [&](auto&& vv) { next(std::forward<decltype(vv)>(vv).range({f0 + a, f0 + b}), nm, cs("range({") + S(f0 + a) + "," + S(f0 + b) + "})"); }); return; }
		case K_REINDEXED: if constexpr(RB) { if(empty) break; L r = o.a % 7 - 3;
			L const r2 = o.b % 5 - 2, r3 = (o.a / 7) % 5 - 2; int const form = (o.b / 5) % 3;  // one index, or one per leading dimension (2 or 3 of them)
			auto firsts = [&](auto&& w, std::vector<L> want, std::string const& call) -> decltype(auto) { std::vector<L> got; std::apply([&](auto const&... x) { (got.push_back(L(x.first())), ...); }, w.extensions().base());  // the i-th argument becomes the first index of dimension i, the others keep theirs
				if(got != want) violation("C19:reindexed:first-indices", call + " of a view whose first indices are " + join(fs) + " reports first indices " + join(got) + ", expected " + join(want)); return std::forward<decltype(w)>(w); };
			if constexpr(D >= 3) { if(form == 2) { with_cat_mut(v, o.cat, [&](auto&& vv) { auto want = fs; want[0] = r; want[1] = r2; want[2] = r3; next(firsts(std::forward<decltype(vv)>(vv).reindexed(r, r2, r3), want, "reindexed(i,j,k)"), m, cs("reindexed(") + S(r) + "," + S(r2) + "," + S(r3) + ")"); }); return; } }
			if constexpr(D >= 2) { if(form == 1) { with_cat_mut(v, o.cat, [&](auto&& vv) { auto want = fs; want[0] = r; want[1] = r2; next(firsts(std::forward<decltype(vv)>(vv).reindexed(r, r2), want, "reindexed(i,j)"), m, cs("reindexed(") + S(r) + "," + S(r2) + ")"); }); return; } }
			with_cat_mut(v, o.cat, [&](auto&& vv) { auto want = fs; want[0] = r; next(firsts(std::forward<decltype(vv)>(vv).reindexed(r), want, "reindexed(i)"), m, cs("reindexed(") + S(r) + ")"); }); return; } break;
		case K_BLOCKED: if constexpr(RB) { if(empty) break; L a = o.a % s0; L b = a + 1 + o.b % (s0 - a); MV nm = m_sliced(m, a, b); int cat = o.cat == 1 ? 0 : o.cat;
			if(cat == 2) { auto&& w = std::forward<V>(v); next(w.blocked(f0 + a, f0 + b), nm, "blocked(" + S(f0 + a) + "," + S(f0 + b) + ")"); } else { next(v.blocked(f0 + a, f0 + b), nm, "blocked(" + S(f0 + a) + "," + S(f0 + b) + ")"); } return; } break;
		case K_STENCILED: if constexpr(RB) { if(empty) break; L a = o.a % s0; L b = a + 1 + o.b % (s0 - a);
			if constexpr(D >= 2) { if(o.c % 2) { L s1 = m.size[1]; L a1 = (o.a / 7) % s1; L b1 = a1 + 1 + (o.b / 7) % (s1 - a1); std::vector<CallArg> as{{1, a, b, 0}, {1, a1, b1, 1}}; MV nm = m_call(m, as);
				next(v.stenciled({f0 + a, f0 + b}, {fs[1] + a1, fs[1] + b1}), nm, "stenciled({" + S(f0 + a) + "," + S(f0 + b) + "},{" + S(fs[1] + a1) + "," + S(fs[1] + b1) + "})"); return; } }
			MV nm = m_sliced(m, a, b); next(v.stenciled({f0 + a, f0 + b}), nm, "stenciled({" + S(f0 + a) + "," + S(f0 + b) + "})"); return; } break;
		case K_CALL: { if(empty) break;
			// a fixed catalogue of argument-kind patterns per dimensionality (argument kinds are compile-time types)
			auto rg = [&](std::size_t d, L salt) { L sd = m.size[d]; L a = (o.a / (1 + L(d) * 7) + salt) % sd; L b = a + 1 + (o.b / (1 + L(d) * 5)) % (sd - a); return CallArg{1, a, b, int(d)}; };
			auto ix = [&](std::size_t d) { return CallArg{0, (o.b / (1 + L(d) * 3)) % m.size[d], 0, int(d)}; };
			CallArg const all{2, 0, 0};
			auto R = [&](CallArg const& c) { return multi::irange{c.a + fs[std::size_t(c.dim)], c.b + fs[std::size_t(c.dim)]}; }; auto I = [&](CallArg const& c) { return c.a + fs[std::size_t(c.dim)]; };
			auto T = [&](std::vector<CallArg> const& as) { std::string t = cs("("); for(std::size_t i = 0; i < as.size(); ++i) { if(i) t += ","; t += as[i].kind == 0 ? S(as[i].a + fs[i]) : as[i].kind == 1 ? "{" + S(as[i].a + fs[i]) + "," + S(as[i].b + fs[i]) + "}" : "_"; } return t + ")"; };
			int const pat = int(o.c % 8);
			if constexpr(D == 1) {
				if(pat % 2 == 0) { auto a0 = rg(0, 0); std::vector<CallArg> as{a0}; MV nm = m_call(m, as); with_cat(v, o.cat, [&](auto&& vv) { next(std::forward<decltype(vv)>(vv)(R(a0)), nm, T(as)); }); }
				else { std::vector<CallArg> as{all}; MV nm = m_call(m, as); with_cat(v, o.cat, [&](auto&& vv) { next(std::forward<decltype(vv)>(vv)(multi::_), nm, T(as)); }); }
				return;
			} else if constexpr(D == 2) {
				auto r0 = rg(0, 0), r1 = rg(1, 1); auto i0 = ix(0), i1 = ix(1);
				switch(pat) {
				case 0: { std::vector<CallArg> as{r0, r1}; MV nm = m_call(m, as); with_cat(v, o.cat, [&](auto&& vv) { next(std::forward<decltype(vv)>(vv)(R(r0), R(r1)), nm, T(as)); }); return; }
				case 1: { std::vector<CallArg> as{i0, r1}; MV nm = m_call(m, as); with_cat(v, o.cat, [&](auto&& vv) { next(std::forward<decltype(vv)>(vv)(I(i0), R(r1)), nm, T(as)); }); return; }
				case 2: { std::vector<CallArg> as{r0, i1}; MV nm = m_call(m, as); with_cat(v, o.cat, [&](auto&& vv) { next(std::forward<decltype(vv)>(vv)(R(r0), I(i1)), nm, T(as)); }); return; }
				case 3: { std::vector<CallArg> as{all, r1}; MV nm = m_call(m, as); with_cat(v, o.cat, [&](auto&& vv) { next(std::forward<decltype(vv)>(vv)(multi::_, R(r1)), nm, T(as)); }); return; }
				case 4: { std::vector<CallArg> as{all, i1}; MV nm = m_call(m, as); with_cat(v, o.cat, [&](auto&& vv) { next(std::forward<decltype(vv)>(vv)(multi::_, I(i1)), nm, T(as)); }); return; }
				case 5: { std::vector<CallArg> as{r0}; MV nm = m_call(m, as); with_cat(v, o.cat, [&](auto&& vv) { next(std::forward<decltype(vv)>(vv)(R(r0)), nm, T(as)); }); return; }
				case 6: { std::vector<CallArg> as{r0, all}; MV nm = m_call(m, as); with_cat(v, o.cat, [&](auto&& vv) { next(std::forward<decltype(vv)>(vv)(R(r0), multi::_), nm, T(as)); }); return; }
				default: { std::vector<CallArg> as{i0, all}; MV nm = m_call(m, as); with_cat(v, o.cat, [&](auto&& vv) { next(std::forward<decltype(vv)>(vv)(I(i0), multi::_), nm, T(as)); }); return; }
				}
			} else if constexpr(D == 3) {
				auto r0 = rg(0, 0), r1 = rg(1, 1), r2 = rg(2, 2); auto i0 = ix(0), i1 = ix(1), i2 = ix(2);
				switch(pat) {
				case 0: { std::vector<CallArg> as{r0, r1, r2}; MV nm = m_call(m, as); with_cat(v, o.cat, [&](auto&& vv) { next(std::forward<decltype(vv)>(vv)(R(r0), R(r1), R(r2)), nm, T(as)); }); return; }
				case 1: { std::vector<CallArg> as{i0, r1, r2}; MV nm = m_call(m, as); with_cat(v, o.cat, [&](auto&& vv) { next(std::forward<decltype(vv)>(vv)(I(i0), R(r1), R(r2)), nm, T(as)); }); return; }
				case 2: { std::vector<CallArg> as{r0, i1, r2}; MV nm = m_call(m, as); with_cat(v, o.cat, [&](auto&& vv) { next(std::forward<decltype(vv)>(vv)(R(r0), I(i1), R(r2)), nm, T(as)); }); return; }
				case 3: { std::vector<CallArg> as{r0, r1, i2}; MV nm = m_call(m, as); with_cat(v, o.cat, [&](auto&& vv) { next(std::forward<decltype(vv)>(vv)(R(r0), R(r1), I(i2)), nm, T(as)); }); return; }
				case 4: { std::vector<CallArg> as{i0, all, r2}; MV nm = m_call(m, as); with_cat(v, o.cat, [&](auto&& vv) { next(std::forward<decltype(vv)>(vv)(I(i0), multi::_, R(r2)), nm, T(as)); }); return; }
				case 5: { std::vector<CallArg> as{all, i1, all}; MV nm = m_call(m, as); with_cat(v, o.cat, [&](auto&& vv) { next(std::forward<decltype(vv)>(vv)(multi::_, I(i1), multi::_), nm, T(as)); }); return; }
				case 6: { std::vector<CallArg> as{r0, i1, i2}; MV nm = m_call(m, as); with_cat(v, o.cat, [&](auto&& vv) { next(std::forward<decltype(vv)>(vv)(R(r0), I(i1), I(i2)), nm, T(as)); }); return; }
				default: { std::vector<CallArg> as{r0, r1}; MV nm = m_call(m, as); with_cat(v, o.cat, [&](auto&& vv) { next(std::forward<decltype(vv)>(vv)(R(r0), R(r1)), nm, T(as)); }); return; }
				}
			} else if constexpr(D == 4) {
				auto r0 = rg(0, 0), r1 = rg(1, 1), r2 = rg(2, 2), r3 = rg(3, 3); auto i0 = ix(0), i1 = ix(1), i2 = ix(2), i3 = ix(3);
				switch(pat % 4) {
				case 0: { std::vector<CallArg> as{r0, r1, r2, r3}; MV nm = m_call(m, as); with_cat(v, o.cat, [&](auto&& vv) { next(std::forward<decltype(vv)>(vv)(R(r0), R(r1), R(r2), R(r3)), nm, T(as)); }); return; }
				case 1: { std::vector<CallArg> as{i0, r1, all, i3}; MV nm = m_call(m, as); with_cat(v, o.cat, [&](auto&& vv) { next(std::forward<decltype(vv)>(vv)(I(i0), R(r1), multi::_, I(i3)), nm, T(as)); }); return; }
				case 2: { std::vector<CallArg> as{r0, i1, i2, r3}; MV nm = m_call(m, as); with_cat(v, o.cat, [&](auto&& vv) { next(std::forward<decltype(vv)>(vv)(R(r0), I(i1), I(i2), R(r3)), nm, T(as)); }); return; }
				default: { std::vector<CallArg> as{all, all, r2, i3}; MV nm = m_call(m, as); with_cat(v, o.cat, [&](auto&& vv) { next(std::forward<decltype(vv)>(vv)(multi::_, multi::_, R(r2), I(i3)), nm, T(as)); }); return; }
				}
			}
			break; }
		default: break;
		}
		run(std::forward<V>(v), m, pc + 1, "skip");  // inapplicable op (out of domain on the model): skipped
	}
};

// --- element access helpers ---------------------------------------------------------------------------------
template<class V> decltype(auto) brk(V&& v, std::vector<L> const& ix, std::size_t k = 0) {
	if constexpr(rank_of<V> == 1) { return std::forward<V>(v)[ix[k]]; } else { return brk(std::forward<V>(v)[ix[k]], ix, k + 1); }
}
template<class V, std::size_t... I> decltype(auto) call_ix(V&& v, std::vector<L> const& ix, std::index_sequence<I...>) { return std::forward<V>(v)(ix[I]...); }
template<class V> decltype(auto) call_ix(V&& v, std::vector<L> const& ix) { return call_ix(std::forward<V>(v), ix, std::make_index_sequence<std::size_t(rank_of<V>)>{}); }
template<class V, std::size_t... I> decltype(auto) apply_ix(V&& v, std::vector<L> const& ix, std::index_sequence<I...>) { return std::forward<V>(v).apply(std::make_tuple(ix[I]...)); }
template<class V> decltype(auto) apply_ix(V&& v, std::vector<L> const& ix) { return apply_ix(std::forward<V>(v), ix, std::make_index_sequence<std::size_t(rank_of<V>)>{}); }
template<int D, class C> auto cur_addr(C const& c, std::vector<L> const& ix, std::size_t k = 0) {
	if constexpr(D == 1) { return std::addressof(c[ix[k]]); } else { return cur_addr<D - 1>(c[ix[k]], ix, k + 1); }
}

template<class Tuple> std::vector<L> tuple_to_vec(Tuple const& t) { std::vector<L> r; std::apply([&](auto... s) { (r.push_back(L(s)), ...); }, t); return r; }

template<int D> auto make_extensions(std::vector<L> const& sz) {
	std::array<L, std::size_t(D)> a{}; for(int d = 0; d < D; ++d) a[std::size_t(d)] = sz[std::size_t(d)];
	return std::apply([](auto... s) { return multi::extensions_t<D>{multi::iextension{0, s}...}; }, a);
}
template<int D> auto make_extensions(std::vector<L> const& first, std::vector<L> const& sz) {
	std::array<std::pair<L, L>, std::size_t(D)> a{}; for(int d = 0; d < D; ++d) a[std::size_t(d)] = {first[std::size_t(d)], first[std::size_t(d)] + sz[std::size_t(d)]};
	return std::apply([](auto... s) { return multi::extensions_t<D>{multi::iextension{s.first, s.second}...}; }, a);
}

}  // namespace vk
