// fancy.hpp — user-defined random-access pointer types for C11: an opaque-address pointer with NO conversion to or from T*
// (`fptr<T,false>`, "min") and the same with bounds + provenance checked on every dereference (`fptr<T,true>`, "checked"), plus allocators.
#pragma once
#include "vk.hpp"
#include <memory>
#include <iterator>
#include <set>
#include <string>

namespace vk {

struct PtrStats { long derefs = 0, oob = 0, null_deref = 0, mixed = 0, released = 0; };
// blocks handed back to the checking allocator and not handed out again: a pointer whose provenance is such a block must not be dereferenced
inline std::set<std::pair<std::uintptr_t, std::uintptr_t>>& released_blocks() { static std::set<std::pair<std::uintptr_t, std::uintptr_t>> s; return s; }
inline PtrStats& pstats() { static PtrStats s; return s; }
// one record per (case, symptom): a symptom that is a recorded finding must not hide a different one later in the same case
inline void ptr_violation(char const* sym, std::string const& detail) { static L last_case = -2; static std::set<std::string> seen; if(st().cur_case != last_case) { last_case = st().cur_case; seen.clear(); } if(seen.size() < 8 && seen.insert(sym).second) violation(std::string("C11:checked_ptr:") + sym, detail, false); }

template<class T, bool CHK> struct falloc;

template<class T, bool CHK> struct fptr {
	using default_allocator_type = falloc<std::remove_cv_t<T>, CHK>;
	using difference_type = std::ptrdiff_t; using value_type = std::remove_cv_t<T>; using pointer = fptr; using reference = std::add_lvalue_reference_t<T>; using iterator_category = std::random_access_iterator_tag; using element_type = T;
	template<class U> using rebind = fptr<U, CHK>;
	using S = std::conditional_t<std::is_void_v<T>, char, T>;
	std::uintptr_t a_ = 0, lo_ = 0, hi_ = 0;  // opaque address (deliberately not a T*); [lo_,hi_) = storage it may dereference (checked flavour)
	std::size_t esz_ = sizeof(S);  // the pointer's own idea of its element size: a pointer object produced by re-reading the BYTES of a pointer to another type keeps the old value
	fptr() = default; fptr(std::nullptr_t) {}  // NOLINT
	struct raw_t {};
	fptr(raw_t, T* p, void const* lo, void const* hi) : a_{reinterpret_cast<std::uintptr_t>(p)}, lo_{reinterpret_cast<std::uintptr_t>(lo)}, hi_{reinterpret_cast<std::uintptr_t>(hi)} {}
	template<class U, std::enable_if_t<std::is_convertible_v<U*, T*> && !std::is_same_v<U, T>, int> = 0> fptr(fptr<U, CHK> const& o) : a_{o.a_}, lo_{o.lo_}, hi_{o.hi_} {}  // NOLINT pointer-to-const / void conversions only
	template<class U, std::enable_if_t<!std::is_convertible_v<U*, T*> && std::is_same_v<std::remove_cv_t<U>, void>, int> = 0> explicit fptr(fptr<U, CHK> const& o) : a_{o.a_}, lo_{o.lo_}, hi_{o.hi_} {}  // static_cast from void pointer
	void check(std::uintptr_t a) const {
		++pstats().derefs; if constexpr(CHK) {
			if(esz_ != sizeof(S)) { ptr_violation((std::string("type-punned-pointer-object:") + st().ctx).c_str(), "a pointer object was obtained by reinterpreting the bytes of a pointer to an element type of another size (the pointer type's own cast was bypassed)"); }
			else if(a == 0 || (lo_ == 0 && hi_ == 0)) { ++pstats().null_deref; ptr_violation("null-dereference", "a null / storage-less fancy pointer was dereferenced"); }
			else if(!released_blocks().empty() && released_blocks().count({lo_, hi_})) { ++pstats().released; ptr_violation("dereference-into-released-block", "a pointer into a block that was already returned to the allocator was dereferenced (offset " + std::to_string(long(a) - long(lo_)) + " bytes)"); }
			else if(a < lo_ || a + sizeof(S) > hi_) { ++pstats().oob; ptr_violation("out-of-bounds-dereference", "dereference at offset " + std::to_string(long(a) - long(lo_)) + " bytes of a block of " + std::to_string(hi_ - lo_) + " bytes"); } } }
	template<class TT = T, std::enable_if_t<!std::is_void_v<TT>, int> = 0> std::add_lvalue_reference_t<TT> operator*() const { check(a_); return *reinterpret_cast<TT*>(a_); }
	template<class TT = T, std::enable_if_t<!std::is_void_v<TT>, int> = 0> std::add_lvalue_reference_t<TT> operator[](difference_type n) const { return *(*this + n); }
	template<class TT = T, std::enable_if_t<!std::is_void_v<TT>, int> = 0> TT* operator->() const { check(a_); return reinterpret_cast<TT*>(a_); }
	fptr& operator+=(difference_type n) { a_ += std::uintptr_t(n * difference_type(sizeof(S))); return *this; }
	fptr& operator-=(difference_type n) { return *this += -n; }
	fptr& operator++() { return *this += 1; } fptr& operator--() { return *this -= 1; } fptr operator++(int) { auto t = *this; ++*this; return t; } fptr operator--(int) { auto t = *this; --*this; return t; }
	friend fptr operator+(fptr p, difference_type n) { p += n; return p; } friend fptr operator+(difference_type n, fptr p) { p += n; return p; } friend fptr operator-(fptr p, difference_type n) { p -= n; return p; }
	static void same(fptr const& x, fptr const& y) { if constexpr(CHK) { if(x.a_ && y.a_ && (x.lo_ != y.lo_ || x.hi_ != y.hi_)) { ++pstats().mixed; ptr_violation("mixed-provenance", "two pointers into different storages were subtracted/ordered"); } } }
	friend difference_type operator-(fptr const& x, fptr const& y) { same(x, y); return (difference_type(x.a_) - difference_type(y.a_)) / difference_type(sizeof(S)); }
	friend bool operator==(fptr const& x, fptr const& y) { return x.a_ == y.a_; } friend bool operator!=(fptr const& x, fptr const& y) { return x.a_ != y.a_; }
	friend bool operator<(fptr const& x, fptr const& y) { same(x, y); return x.a_ < y.a_; } friend bool operator>(fptr const& x, fptr const& y) { same(x, y); return x.a_ > y.a_; } friend bool operator<=(fptr const& x, fptr const& y) { same(x, y); return x.a_ <= y.a_; } friend bool operator>=(fptr const& x, fptr const& y) { same(x, y); return x.a_ >= y.a_; }
	friend bool operator==(fptr const& x, std::nullptr_t) { return x.a_ == 0; } friend bool operator!=(fptr const& x, std::nullptr_t) { return x.a_ != 0; }
	explicit operator bool() const { return a_ != 0; }
	template<class TT = T> static fptr pointer_to(std::add_lvalue_reference_t<TT> r) { return fptr{raw_t{}, std::addressof(r), std::addressof(r), std::addressof(r) + 1}; }
	// harness-only escape hatch (never used by the library): the raw address, to compare element identity with the model
	std::uintptr_t vk_addr() const { return a_; }
};

template<class P2, class T, bool CHK> P2 reinterpret_pointer_cast(fptr<T, CHK> const& p) { using U = typename P2::element_type; return P2{typename P2::raw_t{}, reinterpret_cast<U*>(p.a_), reinterpret_cast<void const*>(p.lo_), reinterpret_cast<void const*>(p.hi_)}; }

template<class T, bool CHK> struct falloc {
	using value_type = T; using pointer = fptr<T, CHK>; using const_pointer = fptr<T const, CHK>; using void_pointer = fptr<void, CHK>; using const_void_pointer = fptr<void const, CHK>; using size_type = std::size_t; using difference_type = std::ptrdiff_t;
	falloc() = default; template<class U> falloc(falloc<U, CHK> const&) {}  // NOLINT
	pointer allocate(size_type n) { T* p = std::allocator<T>{}.allocate(n);
		if constexpr(CHK) { auto& rb = released_blocks(); auto lo = reinterpret_cast<std::uintptr_t>(p), hi = reinterpret_cast<std::uintptr_t>(p + n); for(auto it = rb.begin(); it != rb.end();) { if(it->first < hi && lo < it->second) it = rb.erase(it); else ++it; } if(rb.size() > 4096) rb.clear(); }
		return pointer{typename pointer::raw_t{}, p, p, p + n}; }
	pointer allocate(size_type n, const_void_pointer /*hint*/) { return allocate(n); }
	void deallocate(pointer p, size_type n) { if(p.a_ == 0) { if(n != 0) ptr_violation("deallocate-null", "deallocate(nullptr, n != 0)"); return; }
		if constexpr(CHK) { if(released_blocks().count({p.lo_, p.hi_})) { ptr_violation("deallocate-of-released-block", "a block was returned to the allocator twice"); return; } if(p.a_ != p.lo_ || p.hi_ - p.lo_ != n * sizeof(T)) ptr_violation("deallocate-mismatch", "deallocate(p, n) with a pointer / count that allocate did not produce"); if(n != 0) released_blocks().insert({p.lo_, p.hi_}); }
		std::allocator<T>{}.deallocate(reinterpret_cast<T*>(p.a_), n); }
	template<class U> struct rebind { using other = falloc<U, CHK>; };
	friend bool operator==(falloc const&, falloc const&) { return true; } friend bool operator!=(falloc const&, falloc const&) { return false; }
};

}  // namespace vk
