#!/usr/bin/env python3
"""mutants.py [--n N] [--seed S] [--files f1,f2,..] : mutation sweep used to validate the checks (not a registered check).

For N pseudo-randomly chosen single-token mutations of the library headers (arithmetic / relational operator swaps and +-1 shifts on code lines
that are neither assertions, comments nor template heads) it
  1. applies the mutation to the repo under test ($VERIF_REPO, default /repo -- run it from a `vp run --with-repo` snapshot, never on /repo itself
     while other work is going on),
  2. builds and runs the repository's own test suite (the 78 tests of BASELINE.json); a mutant the suite kills is not interesting,
  3. for a mutant that survives the suite, runs the quick tier of the checks that cover the mutated file until one reports a violation,
  4. reverts the mutation.
One line per mutant is appended to .scratch/mutants.tsv:  id  file:line  'old' -> 'new'  suite=pass|fail|nobuild  detected_by=<check>|NONE  first key.
"""
import os, re, sys, random, subprocess, time, json
V = os.path.dirname(os.path.dirname(os.path.abspath(__file__)))
R = os.environ.get('VERIF_REPO', '/repo')
args = sys.argv[1:]
def opt(name, default):
    return args[args.index(name) + 1] if name in args else default
N = int(opt('--n', '40')); SEED = int(opt('--seed', '1'))
FILES = opt('--files', 'include/boost/multi/detail/layout.hpp,include/boost/multi/array_ref.hpp,include/boost/multi/array.hpp').split(',')
CHECKS = {'layout.hpp': ['C01', 'C02', 'C19', 'C05', 'C07', 'C03', 'C12', 'C18', 'C15'],
          'array_ref.hpp': ['C02', 'C05', 'C07', 'C01', 'C03', 'C19', 'C12', 'C16', 'C17', 'C04'],
          'array.hpp': ['C04', 'C06', 'C08', 'C10', 'C09', 'C05', 'C19', 'C11', 'C17'],
          'fftw.hpp': ['C15'], 'mpi.hpp': ['C18'], 'potrf.hpp': ['C14'], 'geqrf.hpp': ['C14'], 'gesvd.hpp': ['C14']}
for _f in ('gemm', 'gemv', 'axpy', 'dot', 'herk', 'syrk', 'trsm', 'scal', 'copy', 'swap', 'nrm2', 'core', 'numeric', 'operations'): CHECKS[_f + '.hpp'] = ['C13']
OPS = [(r' \+ 1\b', ' - 1'), (r' - 1\b', ' + 1'), (r' \+ ', ' - '), (r' - ', ' + '), (r' \* ', ' / '), (r' <= ', ' < '), (r' < ', ' <= '), (r' >= ', ' > '), (r' > ', ' >= '),
       (r' == ', ' != '), (r' != ', ' == '), (r' && ', ' || '), (r' \|\| ', ' && '), (r'\+\+', '--'), (r' \+= ', ' -= '), (r' -= ', ' += '),
       (r'(?<=[\w\)])\*(?=[\w\(])', '/'), (r'(?<=[\w\)])/(?=[\w\(])', '*'), (r'(?<=[\w\)])\+(?=[\w\(])', '-'), (r'(?<=[\w\)])-(?=[\w\(])', '+'), (r'(?<=[\w\)])%(?=[\w\(])', '/')]
SKIP = re.compile(r'^\s*(//|#|template|static_assert|\*|/\*)|assert|ASSERT|NOLINTNEXTLINE|operator\s*[<>=!+\-*/]|enable_if|decltype\(|using |typename |->|\) && \{|\) &&\s*$|\(D [<>+-]|<D [+-] 1|include |&& noexcept|\) const&& ')

def candidates():
    c = []
    for f in FILES:
        lines = open(os.path.join(R, f)).read().split('\n')
        for i, ln in enumerate(lines):
            code = ln.split('//')[0]
            if SKIP.search(code) or len(code.strip()) < 8: continue
            if '<' in code and ('>' in code) and ('template' in code or 'std::' in code and '<' in code.split('std::')[-1][:30]): continue
            for rx, rep in OPS:
                for m in re.finditer(rx, code):
                    c.append((f, i, m.start(), m.end(), code[m.start():m.end()], rep))
    return c

def sh(cmd, timeout=None, **kw):
    return subprocess.run(cmd, shell=True, stdout=subprocess.PIPE, stderr=subprocess.STDOUT, text=True, timeout=timeout, **kw)

def suite():
    b = sh('cmake --build %s/_build -j16 2>&1 | tail -3' % R, timeout=3600)
    if 'FAILED' in b.stdout or 'error' in b.stdout.lower() or 'ninja: build stopped' in b.stdout: return 'nobuild'
    t = sh('OMPI_ALLOW_RUN_AS_ROOT=1 OMPI_ALLOW_RUN_AS_ROOT_CONFIRM=1 ctest --test-dir %s/_build -j8 --timeout 300 2>&1 | tail -5' % R, timeout=3600)
    return 'pass' if '100% tests passed' in t.stdout else 'fail'

def main():
    os.makedirs(os.path.join(V, '.scratch'), exist_ok=True)
    out = os.path.join(V, '.scratch', 'mutants.tsv')
    if not os.path.exists(os.path.join(R, '_build', 'build.ninja')):
        sh('cmake -G Ninja -S %s -B %s/_build -DCMAKE_BUILD_TYPE=RelWithDebInfo -DCMAKE_CXX_FLAGS=-Wno-error' % (R, R))
    print('baseline suite:', suite(), flush=True)
    cands = candidates(); rnd = random.Random(SEED); rnd.shuffle(cands)
    print('%d candidate sites; sampling %d' % (len(cands), N), flush=True)
    done = 0; seen_lines = set()
    for (f, i, a, b, old, new) in cands:
        if done >= N: break
        if (f, i) in seen_lines: continue
        seen_lines.add((f, i))
        p = os.path.join(R, f); src = open(p).read(); lines = src.split('\n')
        lines[i] = lines[i][:a] + new + lines[i][b:]
        open(p, 'w').write('\n'.join(lines))
        t0 = time.time(); res = suite(); det = '-'; key = ''
        if res == 'pass':
            det = 'NONE'
            for c in CHECKS[os.path.basename(f)]:
                r = sh('cd %s && VERIF_REPO=%s ./vcheck %s quick 2>&1 | grep -A1 "^VIOLATION" | grep key= | head -1' % (V, R, c), timeout=7200)
                if r.stdout.strip(): det = c; key = r.stdout.strip()[:160]; break
        open(p, 'w').write(src)
        done += 1
        line = '%d\t%s:%d\t%r -> %r\tsuite=%s\tdetected_by=%s\t%s\t%ds\t| %s' % (done, os.path.basename(f), i + 1, old, new, res, det, key, time.time() - t0, lines[i].strip()[:140])
        open(out, 'a').write(line + '\n'); print(line, flush=True)
    print('MUTANTS-DONE', flush=True)

main()
