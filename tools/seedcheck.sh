#!/bin/bash
# seedcheck.sh <id> [<wtdir>] : independently confirm a seeded change: applies to current /repo HEAD, suite passes with it, demo fails with it / passes without.
id=$1; wt=${2:-/tmp/wt/$id}; out=/verif/.scratch/seedcheck; mkdir -p $out; log=$out/${SEEDTAG:-}$id.log
{
echo "== seedcheck $id in $wt at $(date)"
cd $wt || exit 2
git diff -- include > /tmp/seed_$id.diff
if ! diff -q /tmp/seed_$id.diff patch.diff >/dev/null; then echo "NOTE: patch.diff differs from worktree diff; using worktree diff"; cp /tmp/seed_$id.diff patch.diff; fi
git -C /repo apply --check $wt/patch.diff && echo "APPLIES_TO_REPO_HEAD=yes" || echo "APPLIES_TO_REPO_HEAD=no"
if [ -z "$DEMO_ONLY" ]; then
cmake -G Ninja -S $wt -B $wt/_build -DCMAKE_BUILD_TYPE=RelWithDebInfo -DCMAKE_CXX_FLAGS=-Wno-error >/dev/null 2>&1
cmake --build $wt/_build -j16 2>&1 | tail -2
OMPI_ALLOW_RUN_AS_ROOT=1 OMPI_ALLOW_RUN_AS_ROOT_CONFIRM=1 ctest --test-dir $wt/_build -j8 --timeout 900 2>&1 | grep -E "tests passed|tests failed" 
rm -rf $wt/_build
fi
cmd=$(grep -v '^#' demo_cmd.txt | grep -E "g\+\+|clang" | head -1 | sed 's/ *&&.*//; s/ *;.*//')
echo "demo cmd: $cmd"
cmd_mut=$(echo "$cmd" | sed -E "s#-o +[^ ]+##g") ; cmd_mut="$cmd_mut -o /tmp/seed_demo_${id}_mut"
cmd_orig=$(echo "$cmd_mut" | sed "s#-I *$wt/include#-I/repo/include#g; s#-Iinclude#-I/repo/include#g; s#-I \./include#-I/repo/include#g; s#_mut\$#_orig#")
echo "mut: $cmd_mut"; echo "orig: $cmd_orig"
( eval "$cmd_mut" ) 2>&1 | tail -3; ( eval "$cmd_orig" ) 2>&1 | tail -3
export OMPI_ALLOW_RUN_AS_ROOT=1 OMPI_ALLOW_RUN_AS_ROOT_CONFIRM=1
timeout 300 /tmp/seed_demo_${id}_mut > /tmp/seed_demo_${id}_mut.out 2>&1; echo "DEMO_WITH_CHANGE_EXIT=$?"; tail -3 /tmp/seed_demo_${id}_mut.out
timeout 300 /tmp/seed_demo_${id}_orig > /tmp/seed_demo_${id}_orig.out 2>&1; echo "DEMO_ON_REPO_HEAD_EXIT=$?"; tail -3 /tmp/seed_demo_${id}_orig.out
rm -f /tmp/seed_demo_${id}_* /tmp/seed_$id.diff
} >> $log 2>&1
grep -E "APPLIES|tests passed|tests failed|DEMO_" $log | tr '\n' ' '; echo
