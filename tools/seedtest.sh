#!/bin/bash
# seedtest.sh <seed-id-or-dir> <prop> [tier] : apply a seeded change to the repo under test, run ./vcheck <prop>, restore the repo. Prints the verdict line.
# The repo is $VERIF_REPO (default /repo); the verif tree is the one this script lives in (so it also works inside a `vp run` snapshot).
s=$1; prop=$2; tier=${3:-quick}
V=$(cd "$(dirname "$0")/.." && pwd); R=${VERIF_REPO:-/repo}; mkdir -p $V/.scratch
if [ -d "$s" ]; then dir=$(cd "$s" && pwd); elif [ -d $V/seeded/$s ]; then dir=$V/seeded/$s; else dir=/tmp/wt/$s; fi
cd $R || exit 2
if [ -n "$(git status --porcelain -- include 2>/dev/null)" ]; then echo "repo include dirty; abort"; exit 2; fi
git apply $dir/patch.diff || { echo "seed=$(basename $dir) check=$prop patch does not apply"; exit 2; }
cd $V; cp -f evidence/$prop.json $V/.scratch/evidence_$prop.keep 2>/dev/null; ./vcheck $prop $tier > $V/.scratch/seedtest_$(basename $dir)_$prop.log 2>&1; rc=$?
( cd $R && git apply -R $dir/patch.diff ) || echo "RESTORE FAILED"
cp -f $V/.scratch/evidence_$prop.keep $V/evidence/$prop.json 2>/dev/null  # the committed evidence must come from the unchanged tree
log=$V/.scratch/seedtest_$(basename $dir)_$prop.log
echo "seed=$(basename $dir) check=$prop tier=$tier exit=$rc viol-lines=$(grep -c '^VIOLATION' $log) first-keys: $(grep -A1 '^VIOLATION' $log | grep key= | head -2 | sed 's/^ *key=//' | cut -c1-110 | tr '\n' ' ')"
