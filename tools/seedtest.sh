#!/bin/bash
# seedtest.sh <seed-id-or-dir> <prop> [tier] : apply a seeded change to /repo, run ./vcheck <prop>, restore /repo. Prints the verdict line.
s=$1; prop=$2; tier=${3:-quick}
if [ -d "$s" ]; then dir=$s; elif [ -d /verif/seeded/$s ]; then dir=/verif/seeded/$s; else dir=/tmp/wt/$s; fi
cd /repo || exit 2
if [ -n "$(git status --porcelain -- include)" ]; then echo "repo include dirty; abort"; exit 2; fi
git apply $dir/patch.diff || { echo "patch does not apply"; exit 2; }
cd /verif; cp -f evidence/$prop.json /verif/.scratch/evidence_$prop.keep 2>/dev/null; ./vcheck $prop $tier > /verif/.scratch/seedtest_$(basename $dir)_$prop.log 2>&1; rc=$?
git -C /repo checkout -- include
cp -f /verif/.scratch/evidence_$prop.keep /verif/evidence/$prop.json 2>/dev/null  # the committed evidence must come from the unchanged tree
echo "seed=$(basename $dir) check=$prop tier=$tier exit=$rc  $(grep -c '^VIOLATION' /verif/.scratch/seedtest_$(basename $dir)_$prop.log) violation line(s): $(grep -A1 '^VIOLATION' /verif/.scratch/seedtest_$(basename $dir)_$prop.log | grep key= | head -3 | tr '\n' ' ')"
