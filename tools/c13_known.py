#!/usr/bin/env python3
"""c13_known.py <vcheck log with 'key=' lines or harness .out files...> : group C13 violation keys by (op, type, layout, symptom) and print
known_findings.jsonl entries (one key_regex per group, the failing size classes spelled out). Used ONCE by hand to record the findings; never at run time."""
import sys, json, re, collections
keys = set()
for f in sys.argv[1:]:
    for l in open(f, errors='replace'):
        if l.startswith('V '): keys.add(json.loads(l[2:])['key'])
        m = re.search(r'key=(C13:\S+)', l)
        if m: keys.add(m.group(1))
g = collections.defaultdict(set); single = []
for k in keys:
    p = k.split(':')
    if p[1] in ('gemm', 'gemv') and len(p) == 6: g[(p[1], p[3], p[5])].add((p[2], p[4]))
    else: single.append(k)
for k in sorted(single): print(json.dumps(dict(property='C13', key=k, status='open', what='gemv with n == 0 returns early (BLAS quick return) and leaves y unscaled although the definition gives beta*y' if 'n0' in k else 'see DESIGN.md C13')))
# merge layouts that fail for the same (types, size classes, symptom)
h = collections.defaultdict(list)
for (op, lay, sym), ts in g.items(): h[(op, sym, tuple(sorted({t for t, _ in ts})), tuple(sorted({s for _, s in ts})))].append(lay)
for (op, sym, ts, szs), lays in sorted(h.items()):
    rx = 'C13:%s:(%s):(%s):(%s):%s' % (op, '|'.join(ts), '|'.join(re.escape(l) for l in sorted(lays)), '|'.join(szs), re.escape(sym))
    what = ('%s dispatches on "stride == 1", which is ambiguous when an extent is 0 or 1 (a 1xk row or a kx1 column has two unit strides): for %d operand layout combination(s) and size classes %s (each extent as 0/1/n) the result is %s' % (op, len(lays), ','.join(szs), 'wrong' if sym == 'wrong' else 'written outside the output view'))
    print(json.dumps(dict(property='C13', key_regex=rx, status='open', what=what)))
