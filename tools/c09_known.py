#!/usr/bin/env python3
"""c09_known.py : maintenance aid for the C09 entries of known_findings.jsonl (run by hand on the unchanged tree, never by a check).

The open C09 findings list their keys literally (C09:D<d>:<scenario>:<fault>:<symptom>). When the scenario list of harness/c09_fault.cpp changes, run
./vcheck C09 thorough and ./vcheck C09 quick, then this script: it collects the keys of the replays written in the last 15 minutes, assigns each to the
recorded root cause whose current list it extends by scenario name only (same fault kind and symptom as an existing key of that entry), and PRINTS the
keys that match no entry — those are new violations to be judged, not to be added blindly."""
import json, glob, os, re, sys, time
V = os.path.dirname(os.path.dirname(os.path.abspath(__file__)))
keys = set()
for f in glob.glob(os.path.join(V, 'replays', 'C09', '*.json')):
    if time.time() - os.path.getmtime(f) < 900: keys.add(json.load(open(f))['key'])
ents = [json.loads(l) for l in open(os.path.join(V, 'known_findings.jsonl'))]
listed = set()
for e in ents:
    if e.get('property') == 'C09' and e.get('status') == 'open':
        for k in e.get('key_regex', '').strip('()').split('|'): listed.add(re.sub(r'\\(.)', r'\1', k))
print('%d keys in recent replays (unlisted violations of the last runs), %d keys listed in open C09 entries' % (len(keys), len(listed)))
for k in sorted(keys - listed): print('UNLISTED', k)
