#!/usr/bin/env python3
"""coverage.py [suite|mine|report] ... : a MEASUREMENT of what the harnesses reach in the library headers (not a registered check).

  coverage.py mine [C01 C02 ...]  copies this tree to /tmp/vcov/verif, runs the quick tier of the given (default: all) checks there with
                                  gcov-instrumented harnesses (VERIF_COVERAGE), and aggregates the per-line execution counts of /repo/include/**
                                  into /tmp/vcov/mine.json
  coverage.py suite               builds the repository's own 78 tests with --coverage in /tmp/vcov/suite, runs them, aggregates into /tmp/vcov/suite.json
  coverage.py report              prints, per header, the lines the repository's tests execute and no harness does, and the lines that are
                                  instantiated in some harness but never executed; writes seeded/COVERAGE_gaps.txt
Everything lives under /tmp/vcov and is removed by `coverage.py clean`."""
import os, sys, json, subprocess, glob, gzip, shutil, collections
V = os.path.dirname(os.path.dirname(os.path.abspath(__file__))); R = os.environ.get('VERIF_REPO', '/repo'); W = '/tmp/vcov'
def sh(cmd, **kw): return subprocess.run(cmd, shell=True, stdout=subprocess.PIPE, stderr=subprocess.STDOUT, text=True, **kw)
def aggregate(root, out):
    lines = collections.defaultdict(lambda: collections.defaultdict(int))  # file -> line -> count (instantiated lines only)
    gcdas = glob.glob(os.path.join(root, '**', '*.gcda'), recursive=True)
    for i, g in enumerate(gcdas):
        d = os.path.dirname(g)
        p = subprocess.run(['gcov', '--json-format', '--stdout', g], cwd=d, stdout=subprocess.PIPE, stderr=subprocess.DEVNULL)
        for doc in p.stdout.decode(errors='replace').splitlines():
            try: j = json.loads(doc)
            except Exception: continue
            for f in j.get('files', []):
                fn = os.path.normpath(os.path.join(j.get('current_working_directory', d), f['file']))
                if '/include/boost/multi/' not in fn: continue
                key = fn[fn.index('/include/boost/multi/') + 1:]
                for ln in f.get('lines', []): lines[key][ln['line_number']] += ln['count']
    json.dump({k: {str(a): b for a, b in v.items()} for k, v in lines.items()}, open(out, 'w'))
    print('%d gcda files, %d headers -> %s' % (len(gcdas), len(lines), out))
def main():
    a = sys.argv[1:] or ['report']; os.makedirs(W, exist_ok=True)
    if a[0] == 'clean': shutil.rmtree(W, ignore_errors=True); return
    if a[0] == 'mine':
        props = a[1:] or ['C%02d' % i for i in range(1, 21)]
        sh('rsync -a --delete --exclude .build --exclude .scratch --exclude .git --exclude replays %s/ %s/verif/' % (V, W))
        for p in props:
            r = sh('cd %s/verif && VERIF_REPO=%s VERIF_COVERAGE=%s/mine ./vcheck %s quick 2>&1 | tail -1' % (W, R, W, p)); print(p, r.stdout.strip()[:160], flush=True)
        aggregate(W + '/mine', W + '/mine.json')
    elif a[0] == 'suite':
        print(sh('cmake -G Ninja -S %s -B %s/suite -DCMAKE_BUILD_TYPE=Debug -DCMAKE_CXX_FLAGS="-Wno-error --coverage -O0" >/dev/null 2>&1; cmake --build %s/suite -j16 2>&1 | tail -1; OMPI_ALLOW_RUN_AS_ROOT=1 OMPI_ALLOW_RUN_AS_ROOT_CONFIRM=1 ctest --test-dir %s/suite -j8 --timeout 900 2>&1 | tail -3' % (R, W, W, W)).stdout)
        aggregate(W + '/suite', W + '/suite.json')
    else:
        mine = json.load(open(W + '/mine.json')); suite = json.load(open(W + '/suite.json')) if os.path.exists(W + '/suite.json') else {}
        out = []; tot = collections.Counter()
        for f in sorted(set(mine) | set(suite)):
            src = open(os.path.join(R, f)).read().split('\n'); m = mine.get(f, {}); s = suite.get(f, {})
            only_suite = sorted(int(l) for l, c in s.items() if c > 0 and m.get(l, 0) == 0); dead = sorted(int(l) for l, c in m.items() if c == 0 and s.get(l, 0) == 0)
            hit = sum(1 for c in m.values() if c > 0); tot['mine_hit'] += hit; tot['suite_hit'] += sum(1 for c in s.values() if c > 0); tot['only_suite'] += len(only_suite); tot['instantiated_unexecuted'] += len(dead)
            out.append('== %s: executed by harnesses %d lines, by the suite %d; suite-only %d; instantiated in a harness but never executed %d' % (f, hit, sum(1 for c in s.values() if c > 0), len(only_suite), len(dead)))
            for l in only_suite: out.append('  S %5d  %s' % (l, src[l - 1].strip()[:150]))
            for l in dead: out.append('  U %5d  %s' % (l, src[l - 1].strip()[:150]))
        out.insert(0, 'totals: %s   (S = executed by the repository tests, by no harness;  U = instantiated by a harness, never executed)' % dict(tot))
        open(os.path.join(V, 'seeded', 'COVERAGE_gaps.txt'), 'w').write('\n'.join(out) + '\n'); print(out[0]); print('written seeded/COVERAGE_gaps.txt (%d lines)' % len(out))
main()
