#!/usr/bin/env python3
"""mkround.py <round-number> [<prop> ...] : prepare a seeding round: one scratch git worktree of /repo HEAD per property under /tmp/wt<round>/<id>, each with a TASK.txt
that holds the property text, short summaries of the changes earlier volunteers made for it (from seeded/<id>*/meta.json) and the deliverables.
The sub-agents get nothing from /verif. Afterwards: tools/seedcheck.sh, tools/seedkeep.py, tools/seedtest.sh (see DESIGN.md section 6)."""
import json, os, subprocess, sys, glob
V = os.path.dirname(os.path.dirname(os.path.abspath(__file__))); rnd = sys.argv[1]; base = '/tmp/wt%s' % rnd
T = '''You are helping evaluate how well the test suite of the header-only C++17 library correaa/boost-multi (multidimensional arrays and views) guards one semantic property. You have your own scratch git worktree of the library at {wt} . Work ONLY inside that directory (never touch /repo or /verif; do not read anything under /verif). There is no network.

PROPERTY ({pid}):
{stmt}

Earlier volunteers already made the following changes for this property. Do NOT repeat them or close variants of them; pick a different function and a different mechanism:
{prev}

YOUR TASK: make one small, realistic source change under {wt}/include (the kind of slip a plausible refactoring, optimisation or clean-up would introduce) that BREAKS the property for some inputs, such that
 (a) the library still compiles,
 (b) the repository's complete, unedited test suite still passes. Build and run it exactly like this (expect "100% tests passed, 0 tests failed out of 78"; the machine is busy, a full build can take 10-20 minutes, use the -j values given):
     cmake -G Ninja -S {wt} -B {wt}/_build -DCMAKE_BUILD_TYPE=RelWithDebInfo -DCMAKE_CXX_FLAGS=-Wno-error && cmake --build {wt}/_build -j8 && OMPI_ALLOW_RUN_AS_ROOT=1 OMPI_ALLOW_RUN_AS_ROOT_CONFIRM=1 ctest --test-dir {wt}/_build -j8 --timeout 900
 (c) the break needs something specific to manifest (particular shapes, layouts, element types, allocator traits, call forms ...), not every use.
If your first idea fails the suite, revert it (git checkout) and try another one.

DELIVER, in the root of the worktree:
 - patch.diff : output of `git -C {wt} diff -- include`
 - demo.cpp   : a standalone program that exits 0 when compiled against the ORIGINAL headers and non-zero when compiled against your changed headers, and prints what it observed (so the break is demonstrated against the real code, and controls show what still works)
 - demo_cmd.txt : ONE line: the g++ command that compiles demo.cpp with -I{wt}/include (plus needed libs) to {wt}/demo, followed by ` && {wt}/demo`
 - meta.json : {{"property": "{pid}", "summary": "...what you changed and why it breaks the property...", "needs_to_manifest": "...", "why_tests_pass": "...", "ran": ["each command you ran and the outcome you observed"]}}
Verify the demo in both directions yourself (the original headers are available with `git -C {wt} stash` / `git stash pop`, or by compiling against /repo/include which is identical to your worktree's HEAD). Leave your change applied (uncommitted) in the worktree and remove {wt}/_build when you are done (disk space). Never use pgrep/pkill -f with a pattern that matches your own command line. Report briefly: the change, what it needs to manifest, and the observed outcomes (suite result, demo with/without the change).'''
os.makedirs(base, exist_ok=True)
for l in open(os.path.join(V, 'properties.jsonl')):
    p = json.loads(l); pid = p['id']; wt = '%s/%s' % (base, pid)
    if len(sys.argv) > 2 and pid not in sys.argv[2:]: continue
    prev = []
    for d in sorted(glob.glob(os.path.join(V, 'seeded', pid + '*'))):
        if not os.path.isdir(d) or not os.path.exists(d + '/meta.json'): continue
        try: m = json.load(open(d + '/meta.json'))
        except Exception: continue
        sm = ' '.join(str(m.get('summary', '')).split())[:420]
        if sm: prev.append('%d) %s' % (len(prev) + 1, sm))
    subprocess.run(['git', '-C', '/repo', 'worktree', 'add', '--detach', wt, 'HEAD'], stdout=subprocess.DEVNULL, stderr=subprocess.DEVNULL, check=True)
    open(wt + '/TASK.txt', 'w').write(T.format(wt=wt, pid=pid, stmt=p['statement'], prev='\n'.join(prev)))
    print(pid, len(prev), 'earlier changes listed')
