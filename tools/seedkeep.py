#!/usr/bin/env python3
"""seedkeep.py <id> [<name>] : keep a confirmed seeded change under /verif/seeded/<name>/ and remove its scratch worktree."""
import sys, os, json, shutil, subprocess, re
sid = sys.argv[1]; name = sys.argv[2] if len(sys.argv) > 2 else sid
wt = os.environ.get('SEEDWT', '/tmp/wt') + '/' + sid; dst = '/verif/seeded/' + name
log = open('/verif/.scratch/seedcheck/%s%s.log' % (os.environ.get('SEEDTAG', ''), sid)).read()
facts = dict(re.findall(r'(APPLIES_TO_REPO_HEAD|DEMO_WITH_CHANGE_EXIT|DEMO_ON_REPO_HEAD_EXIT)=(\S+)', log))
suite = re.findall(r'(\d+% tests passed, \d+ tests failed out of \d+)', log)
assert suite and suite[-1].startswith('100%'), suite
assert facts.get('DEMO_WITH_CHANGE_EXIT') not in (None, '0', '127') and facts.get('DEMO_ON_REPO_HEAD_EXIT') == '0', facts
os.makedirs(dst, exist_ok=True)
for f in ('patch.diff', 'demo.cpp', 'demo_cmd.txt'): shutil.copy(os.path.join(wt, f), dst)
meta = json.load(open(os.path.join(wt, 'meta.json')))
meta['confirmed_by_tools_seedcheck'] = dict(suite_with_change=suite[-1], demo_with_change_exit=facts['DEMO_WITH_CHANGE_EXIT'], demo_on_repo_head_exit=facts['DEMO_ON_REPO_HEAD_EXIT'],
    ran=['tools/seedcheck.sh %s: cmake+ninja+ctest of the worktree with the change applied (78/78), demo compiled against the changed include (fails) and against /repo/include at HEAD (passes)' % sid])
meta['origin'] = 'independent sub-agent given only the property text and a scratch worktree'
json.dump(meta, open(os.path.join(dst, 'meta.json'), 'w'), indent=1)
subprocess.run(['git', '-C', '/repo', 'worktree', 'remove', '--force', wt])
print('kept', dst)
