#!/bin/bash
# seedpipe.sh <prop> <round> : confirm (seedcheck), keep (seedkeep) and test (seedtest in a private worktree of /repo HEAD) one sub-agent change of a seeding round.
p=$1; r=$2; V=/verif; out=$V/.scratch/r${r}_$p.txt
{
cd $V
[ -f .scratch/seedcheck/r${r}_$p.log ] || SEEDTAG=r${r}_ tools/seedcheck.sh $p /tmp/wt$r/$p
SEEDWT=/tmp/wt$r SEEDTAG=r${r}_ python3 tools/seedkeep.py $p $p-$r || { echo "NOT KEPT $p"; exit 1; }
git -C /repo worktree add --detach /tmp/rc_$p HEAD >/dev/null 2>&1
VERIF_REPO=/tmp/rc_$p tools/seedtest.sh $p-$r $p
git -C /repo worktree remove --force /tmp/rc_$p
} > $out 2>&1
tail -1 $out
