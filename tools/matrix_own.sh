#!/bin/bash
# matrix_own.sh : every kept seeded change against the quick tier of its own property's check (regression run over all rounds).
V=$(cd "$(dirname "$0")/.." && pwd); cd $V
for d in seeded/C*/; do s=$(basename $d); p=${s:0:3}; tools/seedtest.sh $s $p; done
echo MATRIX-OWN-DONE
