#!/usr/bin/env python3
"""c13_accept.py : (re)generate baselines/c13_accept_g<G>_t<T>.txt from the CURRENT repo tree ($VERIF_REPO, default /repo).
Run by hand on the unchanged tree whenever the case enumeration of harness/c13_blas.cpp changes; the files are committed and only ever READ by the
check. Format: one outcome letter per report() of every case ('o' computed-ok, 'r' rejected, 'x' other), cases separated by '|'; a case in which the
harness process died (a misdirected BLAS call) is recorded as 'x'."""
import os, subprocess, sys
V = os.path.dirname(os.path.dirname(os.path.abspath(__file__))); R = os.environ.get('VERIF_REPO', '/repo')
os.makedirs(V + '/baselines', exist_ok=True); os.makedirs(V + '/.scratch', exist_ok=True)
for t in (0, 1, 2, 3):
    for g in (1, 2, 3, 4):
        exe = V + '/.scratch/c13acc'
        c = subprocess.run(['g++', '-std=c++17', '-isystem', V + '/kit/shadow', '-I', R + '/include', '-I', V, '-O1', '-DC13_G=%d' % g, '-DC13_T=%d' % t, V + '/harness/c13_blas.cpp', '-o', exe, '-lopenblas'], stdout=subprocess.DEVNULL, stderr=subprocess.DEVNULL)
        if c.returncode != 0: print('g%d t%d: does not compile (no baseline)' % (g, t)); continue
        n = int(subprocess.run([exe, '--list'], stdout=subprocess.PIPE).stdout.decode().strip())
        dump = V + '/.scratch/c13acc.dump'; out = V + '/.scratch/c13acc.out'
        for f in (dump, out):
            if os.path.exists(f): os.remove(f)
        letters = {}; frm = 0; deaths = 0
        while frm < n:
            subprocess.run([exe, '--seed', '1', '--from', str(frm), '--to', str(n), '--out', out, '--dump-accept', dump], stdout=subprocess.DEVNULL, stderr=subprocess.DEVNULL, env=dict(os.environ, OPENBLAS_NUM_THREADS='1'))
            last = frm - 1
            for l in open(dump):
                p = l.split(' ', 1); k = int(p[0]); letters[k] = p[1].strip(); last = max(last, k)
            if last + 1 >= n: break
            letters[last + 1] = 'x'; deaths += 1; frm = last + 2   # the process died inside case last+1
        s = '|'.join(letters.get(k, '') for k in range(n)) + '|'
        open(V + '/baselines/c13_accept_g%d_t%d.txt' % (g, t), 'w').write(s)
        print('g%d t%d: %d cases, %d computed, %d rejected, %d other, %d process deaths' % (g, t, n, s.count('o'), s.count('r'), s.count('x'), deaths), flush=True)
        for f in (dump, out, exe):
            if os.path.exists(f): os.remove(f)
