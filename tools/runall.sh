#!/bin/bash
# runall.sh [tier] [props...] : run the registered checks and print one summary line each
tier=${1:-quick}; shift
here=$(cd "$(dirname "$0")/.." && pwd); cd $here; mkdir -p .scratch
props=${@:-$(python3 -c "import sys; sys.path.insert(0,'$here'); from checks import REGISTRY; print(' '.join(sorted(REGISTRY)))")}
for p in $props; do ./vcheck $p $tier > .scratch/runall_$p.log 2>&1; rc=$?; echo "$p exit=$rc $(grep -E '^\[C' .scratch/runall_$p.log | tail -1) $(grep -c '^VIOLATION' .scratch/runall_$p.log) viol-lines $(grep -c '^KNOWN' .scratch/runall_$p.log) known-lines"; done
