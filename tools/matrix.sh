#!/bin/bash
# matrix.sh [suffixes...] : every kept seeded change against its own check and the checks of neighbouring properties (quick tier).
V=$(cd "$(dirname "$0")/.." && pwd); cd $V
declare -A REL=( [C01]="C01 C02 C03 C05 C12 C19 C20" [C02]="C02 C01 C03 C05" [C03]="C03 C02 C07" [C04]="C04 C06 C08 C09 C10 C19" [C05]="C05 C03 C04 C12" [C06]="C06 C04 C08 C09"
  [C07]="C07 C03" [C08]="C08 C04 C06 C09 C10" [C09]="C09 C04 C08 C10" [C10]="C10 C04 C08" [C11]="C11 C04 C08" [C12]="C12 C04 C05" [C13]="C13" [C14]="C14" [C15]="C15" [C16]="C16 C01"
  [C17]="C17" [C18]="C18" [C19]="C19 C01 C04" [C20]="C20 C01" )
for suf in ${@:-"" "-2"}; do for i in $(seq -w 1 20); do p=C$i; [ -d seeded/$p$suf ] || continue; for c in ${REL[$p]}; do tools/seedtest.sh $p$suf $c; done; done; done
echo MATRIX-DONE
