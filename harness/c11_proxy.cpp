// C11 — proxy-reference pointer: the element pointer of an array_ref is a user-defined random-access pointer whose dereference yields a
// PROXY object, not T& (as thrust::device_ptr does). The backing store keeps every element ENCODED (value + CODE), so the only way to read
// or write an element correctly is the pointer's own dereference: any raw access, reinterpretation or `auto tmp = *p` copy of a proxy
// shows as a wrong value. The same view programs as C01 run over such a reference; after every step every element is read through the
// view and compared with the table model; then mutating operations (element writes, fill, view assignment, swap of sub-views, reverse,
// rotate of the leading dimension, copy through iterators) are applied and the whole root is compared with the model's image.
#define VK_MAIN
#include "../kit/viewprog.hpp"
#include <boost/multi/array_ref.hpp>
#include <algorithm>
using namespace vk;

namespace px {
constexpr int CODE = 100000;
struct Stats { long reads = 0, writes = 0, swaps = 0; }; inline Stats& stats() { static Stats s; return s; }
template<class T> class ptr;
template<class T> class ref {  // proxy reference
	T* loc_; template<class> friend class ptr; template<class> friend class ref; explicit ref(T* loc) : loc_{loc} {}
 public:
	ref(ref const&) = default;
	template<class U, std::enable_if_t<std::is_convertible_v<U*, T*> && !std::is_same_v<U, T>, int> = 0> ref(ref<U> const& o) : loc_{o.loc_} {}  // NOLINT
	operator std::remove_cv_t<T>() const { ++stats().reads; return *loc_ - CODE; }  // NOLINT read (decode)
	template<class TT = T, std::enable_if_t<!std::is_const_v<TT>, int> = 0> auto operator=(std::remove_cv_t<T> const& v) const -> ref const& { ++stats().writes; *loc_ = v + CODE; return *this; }
	auto operator=(ref const& o) const -> ref const& { ++stats().writes; *loc_ = *o.loc_; return *this; }
	auto operator=(ref const& o) -> ref& { ++stats().writes; *loc_ = *o.loc_; return *this; }
	template<class U, std::enable_if_t<!std::is_same_v<U, T> && std::is_convertible_v<U*, T const*>, int> = 0> auto operator=(ref<U> const& o) const -> ref const& { ++stats().writes; *loc_ = *o.loc_; return *this; }
	friend void swap(ref a, ref b) { ++stats().swaps; auto t = *a.loc_; *a.loc_ = *b.loc_; *b.loc_ = t; }
	friend auto operator==(ref const& a, ref const& b) -> bool { return *a.loc_ == *b.loc_; } friend auto operator!=(ref const& a, ref const& b) -> bool { return *a.loc_ != *b.loc_; }
	friend auto operator<(ref const& a, ref const& b) -> bool { return *a.loc_ < *b.loc_; }
	auto vk_raw() const -> T* { return loc_; }  // harness only
};
template<class T> class ptr {
	T* p_ = nullptr; template<class> friend class ptr;
 public:
	using difference_type = std::ptrdiff_t; using value_type = std::remove_cv_t<T>; using pointer = ptr; using reference = ref<T>; using iterator_category = std::random_access_iterator_tag; using element_type = T;
	template<class U> using rebind = ptr<U>;
	ptr() = default; ptr(std::nullptr_t) {}  // NOLINT
	explicit ptr(T* p) : p_{p} {}
	template<class U, std::enable_if_t<std::is_convertible_v<U*, T*> && !std::is_same_v<U, T>, int> = 0> ptr(ptr<U> const& o) : p_{o.p_} {}  // NOLINT
	auto operator*() const -> reference { return reference{p_}; } auto operator[](difference_type n) const -> reference { return reference{p_ + n}; }
	auto operator+=(difference_type n) -> ptr& { p_ += n; return *this; } auto operator-=(difference_type n) -> ptr& { p_ -= n; return *this; }
	auto operator++() -> ptr& { ++p_; return *this; } auto operator--() -> ptr& { --p_; return *this; } auto operator++(int) -> ptr { auto t = *this; ++p_; return t; } auto operator--(int) -> ptr { auto t = *this; --p_; return t; }
	friend auto operator+(ptr p, difference_type n) -> ptr { p += n; return p; } friend auto operator+(difference_type n, ptr p) -> ptr { p += n; return p; } friend auto operator-(ptr p, difference_type n) -> ptr { p -= n; return p; }
	friend auto operator-(ptr const& a, ptr const& b) -> difference_type { return a.p_ - b.p_; }
	friend auto operator==(ptr const& a, ptr const& b) -> bool { return a.p_ == b.p_; } friend auto operator!=(ptr const& a, ptr const& b) -> bool { return a.p_ != b.p_; }
	friend auto operator<(ptr const& a, ptr const& b) -> bool { return a.p_ < b.p_; } friend auto operator>(ptr const& a, ptr const& b) -> bool { return a.p_ > b.p_; } friend auto operator<=(ptr const& a, ptr const& b) -> bool { return a.p_ <= b.p_; } friend auto operator>=(ptr const& a, ptr const& b) -> bool { return a.p_ >= b.p_; }
	explicit operator bool() const { return p_ != nullptr; }
};
}  // namespace px

static GenCfg cfg;
static int const* g_root = nullptr; static L g_rootn = 0;   // encoded backing store (without guards)
static std::vector<int> g_model;                             // decoded value of every root position according to the model

template<class V> int rd(V const& v, std::vector<L> const& ix) { return int(brk(v, ix)); }

static void check_root(std::string const& key, std::string const& what) {
	for(L o = 0; o < g_rootn; ++o) if(g_root[o] - px::CODE != g_model[std::size_t(o)]) { violation(key, what + ": root position " + std::to_string(o) + " holds " + std::to_string(g_root[o] - px::CODE) + ", model " + std::to_string(g_model[std::size_t(o)])); return; }
}

struct PVis {
	Rng* g;
	template<class V> void at(V const& v, MV const& m, char const* opn) {
		if(m.has_zero()) return; std::vector<L> ix; std::string const K = std::string("C11:proxy:") + opn + ":";
		for(L k = 0; k < m.n(); ++k) { m.unlin(k, ix); int const got = rd(v, ix); if(got != g_model[std::size_t(m.off[std::size_t(k)])]) { violation(K + "read", "element at " + join(ix) + " read through the proxy-reference pointer is " + std::to_string(got) + ", model " + std::to_string(g_model[std::size_t(m.off[std::size_t(k)])])); return; } }
		{ L k = 0; for(auto const& e : v.elements()) { if(int(e) != g_model[std::size_t(m.off[std::size_t(k)])]) { violation(K + "elements-read", "elements() position " + std::to_string(k) + " differs from the model"); return; } ++k; } if(k != m.n()) violation(K + "elements-count", "elements() visits another number of positions"); }
	}
	template<class V> void final(V&& v, MV const& m) {
		constexpr int D = rank_of<V>; if(m.has_zero()) return; L const N = m.n(); std::vector<L> ix; std::string const K = "C11:proxy:"; long id = 500;
		if constexpr(is_mutable_view<V> && !std::is_const_v<std::remove_reference_t<V>>) {
			auto moff = [&](L k) { return std::size_t(m.off[std::size_t(k)]); };
			op("element-write"); for(int r = 0; r < 3; ++r) { L k = g->below(N); m.unlin(k, ix); brk(v, ix) = int(id); g_model[moff(k)] = int(id); ++id; } check_root(K + "element-write:root-image", "after writing single elements through the view");
			op("elements-fill"); { for(auto&& e : v.elements()) e = int(id); for(L k = 0; k < N; ++k) g_model[moff(k)] = int(id); ++id; check_root(K + "elements-fill:root-image", "after assigning every element through elements()"); }
			op("distinct-values"); for(L k = 0; k < N; ++k) { m.unlin(k, ix); brk(v, ix) = int(1000 + k); g_model[moff(k)] = int(1000 + k); }
			L const s0 = m.size[0];
			if(s0 >= 2) {
				L const h = s0 / 2; MV a = m_sliced(m, 0, h), b = m_sliced(m, s0 - h, s0);
				op("swap(sub-views)"); { using std::swap; swap(v.sliced(0, h), v.sliced(s0 - h, s0)); for(L k = 0; k < a.n(); ++k) std::swap(g_model[std::size_t(a.off[std::size_t(k)])], g_model[std::size_t(b.off[std::size_t(k)])]); check_root(K + "swap(sub-views):root-image", "after swapping the two halves of the view"); }
				op("view=view"); { v.sliced(0, h) = v.sliced(s0 - h, s0); for(L k = 0; k < a.n(); ++k) g_model[std::size_t(a.off[std::size_t(k)])] = g_model[std::size_t(b.off[std::size_t(k)])]; check_root(K + "view=view:root-image", "after assigning one half of the view to the other"); }
				op("distinct-values"); for(L k = 0; k < N; ++k) { m.unlin(k, ix); brk(v, ix) = int(2000 + k); g_model[moff(k)] = int(2000 + k); }
				op("std::reverse(begin,end)"); { std::reverse(v.begin(), v.end()); L const sub = N / s0; std::vector<int> img(static_cast<std::size_t>(N)); for(L i = 0; i < s0; ++i) for(L q = 0; q < sub; ++q) img[std::size_t(i * sub + q)] = g_model[moff((s0 - 1 - i) * sub + q)]; for(L k = 0; k < N; ++k) g_model[moff(k)] = img[std::size_t(k)]; check_root(K + "reverse:root-image", "after std::reverse over the leading dimension"); }
				op("std::rotate(begin,mid,end)"); { L const r = 1 + g->below(s0 - 1); std::rotate(v.begin(), v.begin() + r, v.end()); L const sub = N / s0; std::vector<int> img(static_cast<std::size_t>(N)); for(L i = 0; i < s0; ++i) for(L q = 0; q < sub; ++q) img[std::size_t(i * sub + q)] = g_model[moff(((i + r) % s0) * sub + q)]; for(L k = 0; k < N; ++k) g_model[moff(k)] = img[std::size_t(k)]; check_root(K + "rotate:root-image", "after std::rotate over the leading dimension"); }
				op("std::swap_ranges(elements)"); { auto&& ea = v.sliced(0, h).elements(); auto&& eb = v.sliced(s0 - h, s0).elements(); std::swap_ranges(ea.begin(), ea.end(), eb.begin()); for(L k = 0; k < a.n(); ++k) std::swap(g_model[std::size_t(a.off[std::size_t(k)])], g_model[std::size_t(b.off[std::size_t(k)])]); check_root(K + "swap_ranges(elements):root-image", "after std::swap_ranges over the elements of the two halves"); }
				op("=="); { bool const e1 = (v.sliced(0, h) == v.sliced(s0 - h, s0)); bool me = true; for(L k = 0; k < a.n(); ++k) me &= (g_model[std::size_t(a.off[std::size_t(k)])] == g_model[std::size_t(b.off[std::size_t(k)])]); if(e1 != me) violation(K + "==:result", "== of two sub-views over the proxy-reference pointer disagrees with the model"); if(!(v == v)) violation(K + "==:self", "a view over the proxy-reference pointer does not compare equal to itself"); }
			}
			if constexpr(D == 1) { op("std::sort"); std::sort(v.begin(), v.end()); std::vector<int> vals; for(L k = 0; k < N; ++k) vals.push_back(g_model[moff(k)]); std::sort(vals.begin(), vals.end()); for(L k = 0; k < N; ++k) g_model[moff(k)] = vals[std::size_t(k)]; check_root(K + "sort:root-image", "after std::sort of a 1-D view"); }
			nontrivial(N >= 2);
		}
		(void)id;
	}
};

template<int D> void one(Case& c, Prog const& p) {
	auto exts = make_extensions<D>(p.root); MV m = MV::root(p.root); L const n = m.n(); sig_mix(std::uint64_t(D)); for(auto s : p.root) sig_mix(std::uint64_t(std::min<L>(s, 3))); describe("proxy-pointer D=" + std::to_string(D) + " root=" + m.shape() + ":");
	constexpr L G = 16; std::vector<int> store(std::size_t(n + 2 * G), 7 + px::CODE); g_model.assign(std::size_t(n), 0); for(L i = 0; i < n; ++i) { g_model[std::size_t(i)] = int((i * 7) % 11 + 20); store[std::size_t(G + i)] = g_model[std::size_t(i)] + px::CODE; }
	g_root = store.data() + G; g_rootn = n;
	multi::array_ref<int, D, px::ptr<int>> R(exts, px::ptr<int>(store.data() + G));
	PVis vis{&c.rng}; Interp<PVis> I{vis, p}; I.run(R(), m, 0, "root");
	for(L i = 0; i < G; ++i) if(store[std::size_t(i)] != 7 + px::CODE || store[std::size_t(G + n + i)] != 7 + px::CODE) { violation("C11:proxy:guard-written", "an element outside the referenced storage was written"); break; }
	count("proxy_reads", px::stats().reads); count("proxy_writes", px::stats().writes); count("proxy_swaps", px::stats().swaps); px::stats() = px::Stats{};
}

int main(int argc, char** argv) {
	cfg.maxD = 3; cfg.max_ops = 4;
	return main_loop(argc, argv, [&](Case& c) {
		static bool init = false; if(!init) { init = true; auto& a = st().args; for(std::size_t i = 0; i + 1 < a.size(); ++i) { if(a[i] == "--maxext") cfg.max_ext = std::atoi(a[i + 1].c_str()); if(a[i] == "--maxops") cfg.max_ops = std::atoi(a[i + 1].c_str()); } }
		Prog p = gen_prog(c.rng, cfg); for(auto& o : p.ops) if(o.cat == 1) o.cat = 0;
		switch(p.root.size()) { case 1: one<1>(c, p); break; case 2: one<2>(c, p); break; default: one<3>(c, p); break; }
	});
}
