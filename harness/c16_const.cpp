// C16 — const propagation. Every access path of depth <= 2 view-forming steps + 1 terminal accessor from each root kind is instantiated; the
// element reference type it yields is classified at run time (std::is_assignable) and recorded as an event; writes found possible from
// mutable roots are executed and must land on exactly one element. The observation "is this expression well-formed / assignable" is made by
// the compiler and surfaced through type traits (level: other, see DESIGN.md C16).      -DC16_D=<1..3>  -DC16_ROOT=<0..5>
#define VK_MAIN
#include "../kit/viewprog.hpp"
#include <boost/multi/array_ref.hpp>
using namespace vk;

#ifndef C16_D
#define C16_D 2
#endif
#ifndef C16_ROOT
#define C16_ROOT 0
#endif
constexpr int RD = C16_D;
static char const* ROOTN[] = {"array-const", "array-mutable", "static_array-const", "array_ref-const", "view-by-const-ref", "view-by-auto&&"};
constexpr bool CONST_ROOT = (C16_ROOT == 0 || C16_ROOT == 2 || C16_ROOT == 3 || C16_ROOT == 4);

template<class X> constexpr bool is_cq = std::is_const_v<std::remove_reference_t<X>>;
template<class X> constexpr bool is_owning = std::is_base_of_v<multi::static_array<int, rank_of<X>>, std::decay_t<X>>;
template<class X> std::string type_class() {
	std::string s = is_owning<X> ? "array" : (is_mutable_view<X> ? "subarray" : "const_subarray");
	using EP = typename std::decay_t<X>::element_ptr; if(std::is_same_v<EP, int const*>) s += "<const int*>";
	s += is_cq<X> ? ":const-lvalue" : (std::is_lvalue_reference_v<X> ? ":lvalue" : ":rvalue"); return s;
}

static int* g_root = nullptr; static L g_rootn = 0; static std::vector<int> g_snap;
static long n_paths = 0, n_writable = 0, n_executed = 0;

// ---- terminal accessors: each yields an element-level expression ------------------------------------------------
template<class X> decltype(auto) down(X&& x) { if constexpr(rank_of<X> == 1) { return std::forward<X>(x)[0]; } else { return down(std::forward<X>(x)[0]); } }
template<class X, std::size_t... I> decltype(auto) call0(X&& x, std::index_sequence<I...>) { return std::forward<X>(x)((void(I), 0)...); }
template<int R, class C> decltype(auto) curdown(C&& c) { if constexpr(R == 1) { return c[0]; } else { return curdown<R - 1>(c[0]); } }

template<class Expr> void record(char const* term, std::string const& path, std::string const& tclass, bool expect_readonly, bool require_writable, Expr&& make_expr) {
	using ET = decltype(make_expr()); constexpr bool writable = std::is_assignable_v<ET, int>;
	++n_paths; sig_mix(path.c_str()); sig_mix(term); count(std::string("terminal:") + term); if(writable) ++n_writable;
	std::string const where = std::string(ROOTN[C16_ROOT]) + " D=" + std::to_string(RD) + " path=" + path + " terminal=" + term + " applied-to=" + tclass;
	if(expect_readonly && writable) violation(std::string("C16:writable-through-const:") + tclass + ":" + term, "a modifiable element reference is reachable: " + where, false);
	if(require_writable && !writable) violation(std::string("C16:mutable-path-not-writable:") + tclass + ":" + term, "no modifiable reference on a mutable path the README documents: " + where, false);
	if constexpr(writable) { if(!expect_readonly) {  // execute the write: it must land on exactly one element of the root
		op((std::string("execute-write:") + term).c_str()); std::copy(g_root, g_root + g_rootn, g_snap.begin()); make_expr() = 123456; long changed = 0; for(L i = 0; i < g_rootn; ++i) changed += (g_root[i] != g_snap[std::size_t(i)]);
		if(changed != 1) violation(std::string("C16:write-does-not-land:") + term, "writing through the path changed " + std::to_string(changed) + " elements: " + where, false); std::copy(g_snap.begin(), g_snap.end(), g_root); ++n_executed; } }
}

template<class X> void terminals(X&& x, std::string const& path, bool all_mutable) {
	constexpr int R = rank_of<X>; std::string const tc = type_class<X>(); bool const ro = CONST_ROOT; bool const req = !CONST_ROOT && all_mutable && is_mutable_view<X> && !is_cq<X>;
	record("[0]...", path, tc, ro, req, [&]() -> decltype(auto) { return down(std::forward<X>(x)); });
	record("(0,...)", path, tc, ro, req, [&]() -> decltype(auto) { return call0(std::forward<X>(x), std::make_index_sequence<std::size_t(R)>{}); });
	record("*begin()", path, tc, ro, false, [&]() -> decltype(auto) { if constexpr(R == 1) { return *std::forward<X>(x).begin(); } else { return down(*std::forward<X>(x).begin()); } });
	record("begin()[0]", path, tc, ro, false, [&]() -> decltype(auto) { if constexpr(R == 1) { return std::forward<X>(x).begin()[0]; } else { return down(std::forward<X>(x).begin()[0]); } });
	record("*cbegin()", path, tc, true, false, [&]() -> decltype(auto) { if constexpr(R == 1) { return *x.cbegin(); } else { return down(*x.cbegin()); } });
	record("cbegin()[0]", path, tc, true, false, [&]() -> decltype(auto) { if constexpr(R == 1) { return x.cbegin()[0]; } else { return down(x.cbegin()[0]); } });
	if constexpr(R >= 2) {  // the arrow of the leading iterators: it-> designates the same (read-only or mutable) sub-view as *it
		record("cbegin()->[0]...", path, tc, true, false, [&]() -> decltype(auto) { return down(*x.cbegin().operator->()); });
		record("begin()->[0]...", path, tc, ro, false, [&]() -> decltype(auto) { return down(*std::forward<X>(x).begin().operator->()); });
		record("cbegin()->elements()[0]", path, tc, true, false, [&]() -> decltype(auto) { return x.cbegin()->elements()[0]; }); }
	record("elements()[0]", path, tc, ro, req, [&]() -> decltype(auto) { return std::forward<X>(x).elements()[0]; });
	record("*elements().begin()", path, tc, ro, false, [&]() -> decltype(auto) { return *std::forward<X>(x).elements().begin(); });
	record("elements().front()", path, tc, ro, false, [&]() -> decltype(auto) { return std::forward<X>(x).elements().front(); });
	record("front()", path, tc, ro, false, [&]() -> decltype(auto) { if constexpr(R == 1) { return std::forward<X>(x).front(); } else { return down(std::forward<X>(x).front()); } });
	record("back()", path, tc, ro, false, [&]() -> decltype(auto) { if constexpr(R == 1) { return std::forward<X>(x).back(); } else { return down(std::forward<X>(x).back()); } });
	record("home()[0]...", path, tc, ro, false, [&]() -> decltype(auto) { return curdown<R>(std::forward<X>(x).home()); });
	record("as_const(x)[0]...", path, tc, true, false, [&]() -> decltype(auto) { return down(std::as_const(x)); });
}

// ---- view-forming steps (applicability decided by rank / constness, never by blind detection) ---------------------
enum StepId { S_INDEX, S_SLICED, S_STRIDED, S_DROPPED, S_TAKED, S_ROTATED, S_UNROTATED, S_TRANSPOSED, S_REVERSED, S_DIAGONAL, S_PARTITIONED, S_FLATTED, S_PAREN, S_CALLRANGE, S_DEREF_BEGIN, S_ADDR_DEREF, S_REINDEXED, S_REINDEXED2, S_BLOCKED, S_NSTEPS };
static char const* STEPN[] = {"[0]", "sliced(0,1)", "strided(1)", "dropped(0)", "taked(1)", "rotated()", "unrotated()", "transposed()", "reversed()", "diagonal()", "partitioned(1)", "flatted()", "()", "({0,1})", "*begin()", "*&", "reindexed(0)", "reindexed(0,0)", "blocked(0,1)"};

template<int Depth, class X> void explore(X&& x, std::string const& path, bool all_mutable);

template<int S, int Depth, class X> void try_step(X&& x, std::string const& path, bool all_mutable) {
	constexpr int R = rank_of<X>; constexpr bool cq = is_cq<X>; constexpr bool mutv = is_mutable_view<X> || is_owning<X>;
	auto go = [&](auto&& nx) { using NX = decltype(nx); explore<Depth - 1>(std::forward<NX>(nx), path + "." + STEPN[S], all_mutable && (is_mutable_view<NX> || is_owning<NX>)); };
	// `strided/dropped/taked/reversed() const&` of D>1 views, taked() of read-only D>1 view types: not compilable on the pinned tree (skipped by rule)
	if constexpr(S == S_INDEX) { if constexpr(R > 1) go(std::forward<X>(x)[0]); }
	else if constexpr(S == S_SLICED) { go(std::forward<X>(x).sliced(0, 1)); }
	else if constexpr(S == S_STRIDED) { if constexpr(!(cq && R > 1)) go(std::forward<X>(x).strided(1)); }
	else if constexpr(S == S_DROPPED) { if constexpr(!(cq && R > 1)) go(std::forward<X>(x).dropped(0)); }
	else if constexpr(S == S_TAKED) { if constexpr(R == 1 || (mutv && !cq)) go(std::forward<X>(x).taked(1)); }
	else if constexpr(S == S_ROTATED) { go(std::forward<X>(x).rotated()); }
	else if constexpr(S == S_UNROTATED) { go(std::forward<X>(x).unrotated()); }
	else if constexpr(S == S_TRANSPOSED) { if constexpr(R > 1) go(std::forward<X>(x).transposed()); }
	else if constexpr(S == S_REVERSED) { if constexpr(!(cq && R > 1)) go(std::forward<X>(x).reversed()); }
	else if constexpr(S == S_DIAGONAL) { if constexpr(R > 1) go(std::forward<X>(x).diagonal()); }
	else if constexpr(S == S_PARTITIONED) { if constexpr(R < 3) go(std::forward<X>(x).partitioned(1)); }
	else if constexpr(S == S_FLATTED) { if constexpr(R > 1) go(std::forward<X>(x).flatted()); }
	else if constexpr(S == S_PAREN) { go(std::forward<X>(x)()); }
	else if constexpr(S == S_CALLRANGE) { go(std::forward<X>(x)(multi::irange{0, 1})); }
	else if constexpr(S == S_DEREF_BEGIN) { if constexpr(R > 1) go(*std::forward<X>(x).begin()); }
	else if constexpr(S == S_REINDEXED) { if constexpr(!(cq && R == 1)) go(std::forward<X>(x).reindexed(0)); }  // (first index 0: the terminals index with 0; what matters here is the TYPE the overload yields) (the 1-D specialisation declares reindexed() for non-const objects only)
	else if constexpr(S == S_REINDEXED2) { if constexpr(R > 1) go(std::forward<X>(x).reindexed(0, 0)); }
	else if constexpr(S == S_BLOCKED) { if constexpr(!cq) go(std::forward<X>(x).blocked(0, 1)); }  // (blocked() const& does not compile on the pinned tree)
	else if constexpr(S == S_ADDR_DEREF) { if constexpr(!is_owning<X>) go(*(&std::forward<X>(x))); }  // the address of a view is a pointer-like object; what it points to is a view again
}
template<int Depth, class X, int... S> void all_steps(X&& x, std::string const& path, bool all_mutable, std::integer_sequence<int, S...>) { (try_step<S, Depth>(x, path, all_mutable), ...); (void)x; }
template<int Depth, class X> void explore(X&& x, std::string const& path, bool all_mutable) {
	terminals(std::forward<X>(x), path, all_mutable);
	if constexpr(Depth > 0) { all_steps<Depth>(x, path, all_mutable, std::make_integer_sequence<int, S_NSTEPS>{});  // intermediate views are named lvalues here ...
		if constexpr(!std::is_lvalue_reference_v<X>) { (void)0; } }
}

// ---- projections (element_transformed with a reference-yielding functor, member_cast, reinterpret_array_cast) applied to read-only handles: the projected view is read-only too
struct S2 { int a; int b; }; struct S2b { int p; int q; };
template<class H, class P> void proj_fact(H&& h, P proj, char const* hname, char const* pname, bool expect_readonly, bool require_writable_when_mutable = true) {
	if constexpr(std::is_invocable_v<P, H&&>) { using E = decltype(down(proj(std::forward<H>(h)))); constexpr bool writable = std::is_assignable_v<E, int>; count("projection_facts"); count(std::string("projection:") + pname);
		if(expect_readonly && writable) violation(std::string("C16:writable-through-const:projection:") + pname + ":" + hname, std::string("a modifiable element reference is reachable through ") + pname + " applied to " + hname, false);
		if(!expect_readonly && !writable && require_writable_when_mutable) violation(std::string("C16:mutable-path-not-writable:projection:") + pname + ":" + hname, std::string(pname) + " of " + hname + " is not writable", false); }
	else { count(std::string("not-applicable:projection:") + pname + ":" + hname); }
}
template<class H> void proj_facts(H&& h, char const* hname, bool ro) {
	proj_fact(std::forward<H>(h), [](auto&& x) -> decltype(std::forward<decltype(x)>(x).element_transformed(&S2::a)) { return std::forward<decltype(x)>(x).element_transformed(&S2::a); }, hname, "element_transformed(&S::a)", ro);
	proj_fact(std::forward<H>(h), [](auto&& x) -> decltype(std::forward<decltype(x)>(x).template member_cast<int>(&S2::a)) { return std::forward<decltype(x)>(x).template member_cast<int>(&S2::a); }, hname, "member_cast<int>(&S::a)", ro);
	proj_fact(std::forward<H>(h), [](auto&& x) -> decltype(std::forward<decltype(x)>(x).template reinterpret_array_cast<int>(2)) { return std::forward<decltype(x)>(x).template reinterpret_array_cast<int>(2); }, hname, "reinterpret_array_cast<int>(2)", ro, false);
	proj_fact(std::forward<H>(h), [](auto&& x) -> decltype(std::forward<decltype(x)>(x).template reinterpret_array_cast<S2b>()) { return std::forward<decltype(x)>(x).template reinterpret_array_cast<S2b>().template member_cast<int>(&S2b::p); }, hname, "reinterpret_array_cast<S'>().member_cast", ro, false);  // (composites: only the read-only direction is a C16 fact; broadcasted() is read-only by design)
	proj_fact(std::forward<H>(h), [](auto&& x) -> decltype(std::forward<decltype(x)>(x).broadcasted()) { return std::forward<decltype(x)>(x).broadcasted().element_transformed(&S2::b); }, hname, "broadcasted().element_transformed(&S::b)", ro, false);
}

int main(int argc, char** argv) {
	return main_loop(argc, argv, [&](Case& c) {
		if(c.k != 0) return;  // one case: the whole (finite) path space of this (D, root kind) is enumerated
		std::vector<L> e(std::size_t(RD), 2); auto exts = make_extensions<RD>(e); L n = 1; for(auto q : e) n *= q;
		describe(std::string("root=") + ROOTN[C16_ROOT] + " D=" + std::to_string(RD)); g_snap.assign(std::size_t(n), 0);
#if C16_ROOT == 0
		multi::array<int, RD> A0(exts, 7); g_root = A0.data_elements(); g_rootn = n; auto const& A = A0; explore<2>(A, "A", false);
#elif C16_ROOT == 1
		multi::array<int, RD> A(exts, 7); g_root = A.data_elements(); g_rootn = n; explore<2>(A, "A", true);
#elif C16_ROOT == 2
		multi::static_array<int, RD> A0(exts, 7); g_root = A0.data_elements(); g_rootn = n; auto const& A = A0; explore<2>(A, "A", false);
#elif C16_ROOT == 3
		std::vector<int> buf(std::size_t(n), 7); g_root = buf.data(); g_rootn = n; multi::array_ref<int, RD> const R(exts, buf.data()); explore<2>(R, "R", false);
#elif C16_ROOT == 4
		multi::array<int, RD> A(exts, 7); g_root = A.data_elements(); g_rootn = n; auto const& v = A(); explore<2>(v, "v", false);
#else
		multi::array<int, RD> A(exts, 7); g_root = A.data_elements(); g_rootn = n; auto&& v = A(); explore<2>(v, "v", true); explore<1>(A().rotated(), "A().rotated()", true);
#endif
		// static facts about reference types
		using Sub = decltype(std::declval<multi::array<int, RD>&>()());
		if(std::is_copy_constructible_v<Sub>) violation("C16:view-copy-constructible", "a named view can be copy-constructed into another view object", false);
		if(std::is_copy_constructible_v<multi::array_ref<int, RD>>) violation("C16:array_ref-copy-constructible", "array_ref is copy-constructible", false);
		using CSub = decltype(std::declval<multi::array<int, RD> const&>()());
		if(std::is_copy_constructible_v<CSub>) violation("C16:const-view-copy-constructible", "a named read-only view can be copy-constructed into another view object", false);
		if(std::is_assignable_v<CSub&, CSub const&> || std::is_assignable_v<CSub&, Sub const&> || std::is_assignable_v<CSub&&, Sub const&>) violation("C16:const-view-assignable", "a read-only view accepts assignment", false);
		{	// a NAMED view / reference (any constness of the object, any element constness) cannot be copied into another view object
			using CR = multi::array_ref<int, RD, int const*>; using MR = multi::array_ref<int, RD>;
			auto nocopy = [&](bool bad, char const* what) { count("copy_facts"); if(bad) violation(std::string("C16:named-view-copy-constructible:") + what, std::string(what) + " can be copy-constructed from a named object", false); };
			nocopy(std::is_constructible_v<MR, MR&>, "array_ref(from non-const lvalue)"); nocopy(std::is_constructible_v<MR, MR const&>, "array_ref(from const lvalue)"); nocopy(std::is_constructible_v<CR, CR&>, "array_cref(from non-const lvalue)"); nocopy(std::is_constructible_v<CR, CR const&>, "array_cref(from const lvalue)");
			nocopy(std::is_constructible_v<std::decay_t<Sub>, std::decay_t<Sub>&>, "subarray(from non-const lvalue)"); nocopy(std::is_constructible_v<std::decay_t<Sub>, std::decay_t<Sub> const&>, "subarray(from const lvalue)");
			nocopy(std::is_constructible_v<std::decay_t<CSub>, std::decay_t<CSub>&>, "const_subarray(from non-const lvalue)"); nocopy(std::is_constructible_v<std::decay_t<CSub>, std::decay_t<CSub> const&>, "const_subarray(from const lvalue)");
			nocopy(std::is_convertible_v<MR&, MR>, "array_ref(implicit copy)"); nocopy(std::is_convertible_v<CR&, CR>, "array_cref(implicit copy)");
		}
		{	// no implicit or explicit way back from a read-only handle to its mutable counterpart (iterators, views, element ranges, cursors); the other direction exists
			using Arr = multi::array<int, RD>; using It = typename Arr::iterator; using CIt = typename Arr::const_iterator;
			using El = decltype(std::declval<Arr&>().elements()); using CEl = decltype(std::declval<Arr const&>().elements()); using EIt = decltype(std::declval<Arr&>().elements().begin()); using CEIt = decltype(std::declval<Arr const&>().elements().begin());
			using Cur = decltype(std::declval<Arr&>().home()); using CCur = decltype(std::declval<Arr const&>().home());
			auto fact = [&](bool bad, char const* what) { count("conversion_facts"); if(bad) violation(std::string("C16:const-to-mutable-conversion:") + what, std::string("a read-only ") + what + " converts to / constructs its mutable counterpart", false); };
			if constexpr(!std::is_same_v<It, CIt>) { fact(std::is_convertible_v<CIt, It>, "iterator(implicit)"); fact(std::is_constructible_v<It, CIt>, "iterator(explicit)"); fact(std::is_assignable_v<It&, CIt>, "iterator(assignment)"); if(!std::is_convertible_v<It, CIt>) info("C16:iterator-to-const_iterator-not-convertible", "iterator does not convert to const_iterator"); }
			fact(std::is_constructible_v<std::decay_t<Sub>, CIt, CIt>, "view-from-const_iterator-pair"); { using CSIt = typename std::decay_t<CSub>::const_iterator; fact(std::is_constructible_v<std::decay_t<Sub>, CSIt, CSIt>, "view-from-const-view-iterator-pair"); }
			if constexpr(!std::is_same_v<Sub, CSub>) { fact(std::is_convertible_v<CSub, Sub>, "view(implicit)"); fact(std::is_constructible_v<Sub, CSub>, "view(explicit)"); fact(std::is_constructible_v<Sub, CSub const&>, "view(explicit,lvalue)"); }
			if constexpr(!std::is_same_v<El, CEl>) { fact(std::is_convertible_v<CEl, El>, "elements-range(implicit)"); fact(std::is_constructible_v<El, CEl>, "elements-range(explicit)"); }
			if constexpr(!std::is_same_v<EIt, CEIt>) { fact(std::is_convertible_v<CEIt, EIt>, "elements-iterator(implicit)"); fact(std::is_constructible_v<EIt, CEIt>, "elements-iterator(explicit)"); }
			if constexpr(!std::is_same_v<Cur, CCur>) { fact(std::is_convertible_v<CCur, Cur>, "cursor(implicit)"); fact(std::is_constructible_v<Cur, CCur>, "cursor(explicit)"); }
			using RIt = typename multi::array_ref<int, RD>::iterator; using RCIt = typename multi::array_ref<int, RD>::const_iterator; if constexpr(!std::is_same_v<RIt, RCIt>) { fact(std::is_convertible_v<RCIt, RIt>, "array_ref-iterator(implicit)"); fact(std::is_constructible_v<RIt, RCIt>, "array_ref-iterator(explicit)"); }
			using SIt = typename std::decay_t<Sub>::iterator; using SCIt = typename std::decay_t<Sub>::const_iterator; if constexpr(!std::is_same_v<SIt, SCIt>) { fact(std::is_convertible_v<SCIt, SIt>, "view-iterator(implicit)"); fact(std::is_constructible_v<SIt, SCIt>, "view-iterator(explicit)"); }
		}
		{	// a lazily transformed view whose functor yields a reference is writable; the same view seen through a const-qualified reference is not (its read-only pointer / reference types are derived from the functor's)
			struct S2 { int a; int b; }; multi::array<S2, RD> AS(exts, S2{1, 2}); auto&& tv = AS.element_transformed(&S2::a); auto const& ctv = tv;
			auto ro = [&](bool writable, char const* what) { count("transformed_view_facts"); if(writable) violation(std::string("C16:writable-through-const:transformed-view:") + what, std::string("a const-qualified element_transformed(&S::member) view yields a modifiable reference through ") + what, false); };
			ro(std::is_assignable_v<decltype(down(ctv)), int>, "[0]..."); ro(std::is_assignable_v<decltype(call0(ctv, std::make_index_sequence<std::size_t(RD)>{})), int>, "(0,...)");
			ro(std::is_assignable_v<decltype(ctv.elements()[0]), int>, "elements()[0]"); ro(std::is_assignable_v<decltype(*ctv.elements().begin()), int>, "*elements().begin()");
			ro(std::is_assignable_v<decltype(curdown<RD>(ctv.home())), int>, "home()[0]...");
#if C16_D >= 2
			ro(std::is_assignable_v<decltype(down(*ctv.cbegin())), int>, "*cbegin()"); ro(std::is_assignable_v<decltype(down(ctv.rotated())), int>, "rotated()[0]..."); ro(std::is_assignable_v<decltype(down(ctv[0])), int>, "[0] then [0]...");
#endif
			if(!std::is_assignable_v<decltype(down(tv)), int>) violation("C16:mutable-path-not-writable:transformed-view", "element_transformed(&S::member) of a mutable array is not writable", false);
			else { down(tv) = 41; if(AS.elements()[0].a != 41) violation("C16:write-does-not-land:transformed-view", "a write through element_transformed(&S::member) did not land in the member", false); }
		}
		{	// projections of read-only handles (every constness / value category a read-only view can have) stay read-only; of mutable handles, writable
			multi::array<S2, RD> MA(exts, S2{1, 2}); auto const& CA = MA;
			proj_facts(CA, "const array", true); proj_facts(MA, "mutable array", false); proj_facts(MA(), "mutable view (prvalue)", false); proj_facts(CA(), "read-only view (prvalue)", true);
			{ auto&& nv = CA(); proj_facts(nv, "read-only view (named, not const-qualified)", true); proj_facts(std::as_const(nv), "read-only view (const-qualified)", true); proj_facts(std::move(nv), "read-only view (xvalue)", true); }
			{ auto&& mv = MA(); proj_facts(std::as_const(mv), "mutable-type view (const-qualified)", true); }
#if C16_D >= 2
			proj_facts(CA[0], "row of const array (prvalue)", true); { auto&& row = CA[0]; proj_facts(row, "row of const array (named)", true); } proj_facts(CA.rotated(), "rotated() of const array", true); proj_facts(MA[0], "row of mutable array", false);
#endif
		}
		{	// assignment to a view / array_ref assigns elements: it never rebinds or resizes the left-hand side
			std::vector<int> b1(std::size_t(n), 1), b2(std::size_t(n), 2); for(L i = 0; i < n; ++i) b2[std::size_t(i)] = int(100 + i);
			multi::array_ref<int, RD> R1(exts, b1.data()); multi::array_ref<int, RD> R2(exts, b2.data()); op("array_ref=array_ref"); R1 = R2;
			if(R1.base() != b1.data() || R1.data_elements() != b1.data() || !(R1.extensions() == exts)) violation("C16:array_ref-rebound-by-assignment", "array_ref = array_ref changed what the left-hand side refers to", false);
			if(b1 != b2) violation("C16:array_ref-assignment-not-elementwise", "array_ref = array_ref did not copy the elements", false);
			multi::array<int, RD> B(exts, 5); op("array_ref=array"); R1 = B; if(R1.base() != b1.data() || b1 != std::vector<int>(std::size_t(n), 5)) violation("C16:array_ref-rebound-by-assignment", "array_ref = array rebinds or does not copy", false);
			multi::array<int, RD> V1(exts, 3); auto&& v1 = V1(); auto const* base1 = V1.data_elements(); op("view=view"); v1 = R2(); if(V1.data_elements() != base1 || v1.base() != base1 || !(V1.extensions() == exts) || !std::equal(b2.begin(), b2.end(), V1.data_elements())) violation("C16:view-rebound-by-assignment", "view = view rebinds, resizes or does not copy", false);
			op("view=move(view)"); std::move(v1) = B(); if(v1.base() != base1 || V1.data_elements()[0] != 5) violation("C16:view-rebound-by-assignment", "move(view) = view rebinds or does not copy", false);
			count("rebinding_probes", 4);
		}
		count("paths_classified", n_paths); count("paths_writable", n_writable); count("writes_executed", n_executed); nontrivial(n_paths > 10);
		describe(" paths=" + std::to_string(n_paths) + " writable=" + std::to_string(n_writable) + " executed=" + std::to_string(n_executed));
	});
}
