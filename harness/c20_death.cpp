// C20 (death tests) — out-of-range indexing and mismatched-extent assignment must be stopped by a library assertion
// (exit through vk_assert_fail with a site under boost/multi) before any out-of-bounds access happens. One forked child per probe.
#define VK_MAIN
#include "../kit/viewprog.hpp"
#include <boost/multi/array_ref.hpp>
#include <sys/mman.h>
#include <array>
using namespace vk;

static GenCfg cfg;
static volatile long sink_v;

// classify a child: 0 = stopped by a library assertion, 1 = survived, 2 = sanitizer / crash before any assertion
static int classify(int rc, std::string const& err, std::string* site) {
	auto p = err.find("VKASSERT site="); auto a = err.find("AddressSanitizer"); auto u = err.find("runtime error");
	if(p != std::string::npos && (a == std::string::npos || p < a) && (u == std::string::npos || p < u)) { if(site) *site = err.substr(p + 14, err.find(' ', p + 14) - p - 14); return 0; }
	if(rc == 0) return 1; return 2;
}

struct DeathVis {
	Rng* g; L probes = 0;
	template<class V> void at(V const&, MV const&, char const*) {}
	template<class V> void final(V&& v, MV const& m) {
		constexpr int D = rank_of<V>; if(m.has_zero()) return;
		// ---- out-of-range index in one chain position, through brackets / call syntax / apply
		for(int rep = 0; rep < 3; ++rep) {
			int const pos = int(g->below(D)); bool const below = g->chance(1, 2); int const path = int(g->below(3)); L const far = g->chance(1, 4) ? g->in(2, 40) : 1;
			std::vector<L> ix(static_cast<std::size_t>(D), 0); for(int d = 0; d < D; ++d) ix[std::size_t(d)] = g->below(m.size[std::size_t(d)]);
			ix[std::size_t(pos)] = below ? -far : m.size[std::size_t(pos)] + far - 1;
			bool const wrap = g->chance(1, 6); if(wrap) { ix[std::size_t(pos)] = g->below(m.size[std::size_t(pos)]) + (below ? -1 : 1) * (L(1) << 32) * g->in(1, 2); count("death_probes:index-off-by-a-multiple-of-2^32"); }  // out of range by a multiple of 2^32: congruent to a valid index in 32-bit arithmetic
			static char const* PN[] = {"brackets", "call", "apply"};
			std::string const what = std::string(PN[path]) + ":pos" + (pos == 0 ? "0" : (pos == D - 1 ? "last" : "mid")) + (below ? ":below" : ":above") + (wrap ? ":by-2^32" : "");
			op(("death:index:" + what).c_str()); std::string err;
			int rc = fork_run([&] { st().expect_death = true; if(path == 0) sink_v = brk(v, ix); else if(path == 1) sink_v = call_ix(v, ix); else sink_v = apply_ix(v, ix); return 0; }, &err);
			std::string site; int cl = classify(rc, err, &site); ++probes; count("death_probes:index"); count(std::string("outcome:index:") + (cl == 0 ? "asserted" : cl == 1 ? "survived" : "sanitizer-or-crash-first"));
			if(cl == 0) { count("assert_site:" + site); }
			else violation("C20:death:index:" + what + ":not-stopped-by-assertion", "indexing at " + join(ix) + " of a view of sizes " + m.shape() + " through " + PN[path] + (cl == 1 ? " survived silently" : " reached a sanitizer report / crash before any assertion: " + err.substr(0, 200)), false);
		}
		sig_mix(std::uint64_t(D)); nontrivial(probes > 0);
	}
};

// ---- mismatched-extent assignments between views / arrays (fixed catalogue of overload kinds), D = 1..3
template<int D> void assign_probes(Rng& g) {
	std::vector<L> e; for(int d = 0; d < D; ++d) e.push_back(g.in(2, 4)); auto f = e; int const which = int(g.below(D)); f[std::size_t(which)] += g.chance(1, 2) ? 1 : -1;
	bool const keepcount = D >= 2 && g.chance(1, 3); if(keepcount) { f = e; std::swap(f[0], f[std::size_t(D - 1)]); if(f == e) f[0] += 1; }
	bool const innerperm = D >= 3 && !keepcount && g.chance(1, 4);  // same leading extent, same element count, inner extents exchanged: only a comparison of ALL extensions notices
	if(innerperm) { if(e[1] == e[2]) e[2] = e[1] + 1; f = e; std::swap(f[1], f[2]); }
	std::string const mism = innerperm ? "inner-extents-exchanged" : keepcount ? "permuted-extents" : (which == 0 ? "leading-extent" : "inner-extent");
	static char const* KN[] = {"named=named", "named=prvalue", "prvalue=prvalue", "named=const", "other-element-type", "array_ref=array_ref", "static_array=array", "elements()=elements()", "swap(views)", "view=array", "view-fill-from-initializer-list", "array_ref=array"};
	int kind = int(g.below(12)); if(kind == 7 && (keepcount || innerperm)) kind = 0;  // flat element ranges of equal length are not a mismatch
	std::string const what = std::string(KN[kind]) + ":" + mism;
	describe(" assign " + what + " dst=" + join(e, "x") + " src=" + join(f, "x")); sig_mix(what.c_str()); op(("death:assign:" + what).c_str());
	// generous padding so that a surviving mismatched assignment stays inside the buffers (the verdict must not depend on where ASan's red zones are)
	std::vector<L> big = e; for(std::size_t d = 0; d < big.size(); ++d) big[d] = std::max(e[d], f[d]) + 3;
	multi::array<int, D> PA(make_extensions<D>(big), 1), PB(make_extensions<D>(big), 2); multi::array<long, D> PL(make_extensions<D>(big), 3);
	std::array<multi::irange, std::size_t(D)> re, rf; for(int d = 0; d < D; ++d) { re[std::size_t(d)] = multi::irange{0, e[std::size_t(d)]}; rf[std::size_t(d)] = multi::irange{0, f[std::size_t(d)]}; }
	std::string err;
	int rc = fork_run([&] { st().expect_death = true;
		std::apply([&](auto... r) { std::apply([&](auto... q) {
			switch(kind) {
			case 0: { auto&& dst = PA(r...); auto&& src = PB(q...); dst = src; break; }
			case 1: { auto&& dst = PA(r...); dst = PB(q...); break; }
			case 2: { PA(r...) = PB(q...); break; }
			case 3: { auto&& dst = PA(r...); dst = std::as_const(PB)(q...); break; }
			case 4: { auto&& dst = PA(r...); dst = PL(q...); break; }
			case 5: { std::vector<int> b1(512, 1), b2(512, 2); multi::array_ref<int, D> R1(make_extensions<D>(e), b1.data()), R2(make_extensions<D>(f), b2.data()); R1 = R2; break; }
			case 6: { multi::static_array<int, D> S(make_extensions<D>(e), 1); multi::array<int, D> A2(make_extensions<D>(f), 2); S = A2; break; }
			case 7: { PA(r...).elements() = PB(q...).elements(); break; }
			case 8: { swap(PA(r...), PB(q...)); break; }
			case 9: { multi::array<int, D> A2(make_extensions<D>(f), 2); auto&& dst = PA(r...); dst = A2; break; }
			case 10: { if constexpr(D == 1) { auto&& dst = PA(r...); if(f[0] == 1) dst = {7}; else if(f[0] == 2) dst = {7, 8}; else if(f[0] == 3) dst = {7, 8, 9}; else if(f[0] == 4) dst = {7, 8, 9, 1}; else dst = {7, 8, 9, 1, 2}; } else { vk_assert_fail("n/a", "boost/multi/n-a", 0, ""); } break; }
			default: { std::vector<int> b1(512, 1); multi::array_ref<int, D> R1(make_extensions<D>(e), b1.data()); multi::array<int, D> A2(make_extensions<D>(f), 2); R1 = A2; break; }
			}
		}, rf); }, re);
		return 0; }, &err);
	std::string site; int cl = classify(rc, err, &site); count("death_probes:assign"); count(std::string("outcome:assign:") + (cl == 0 ? "asserted" : cl == 1 ? "survived" : "sanitizer-or-crash-first"));
	if(cl == 0) count("assert_site:" + site);
	else violation("C20:death:assign:" + what + ":not-stopped-by-assertion", std::string(KN[kind]) + " between extents " + join(e, "x") + " and " + join(f, "x") + (cl == 1 ? " survived silently" : " reached a sanitizer report / crash before any assertion: " + err.substr(0, 200)), false);
	nontrivial();
}

// ---- valid use of views with more than 2^32 elements in one dimension must NOT be stopped (the block is a lazily committed anonymous mapping; a few pages are touched)
static void huge_extent_probe(Rng& g) {
	L const n = (L(1) << 32) + (L(1) << 31) + L(g.below(1000)); std::size_t const total = std::size_t(n) + 4096; describe("huge-extent valid use, n=" + std::to_string(n)); sig_mix("huge-extent"); op("huge-extent:mmap");
	void* mp = mmap(nullptr, total, PROT_READ | PROT_WRITE, MAP_PRIVATE | MAP_ANONYMOUS | MAP_NORESERVE, -1, 0); if(mp == MAP_FAILED) { count("huge-extent-probe:mapping-refused(skipped)"); return; }
	char* const p = static_cast<char*>(mp); int const kind = int(g.below(4)); static char const* KN[] = {"1-D index", "2-D leading index", "sliced", "call-range"}; L const i = (L(1) << 32) + L(g.below(1000000));
	op((std::string("huge-extent:") + KN[kind]).c_str()); std::string err;
	int rc = fork_run([&] { multi::array_ref<char, 1> big({n}, p); multi::array_ref<char, 2> rows({n / 2, 2}, p);
		switch(kind) { case 0: big[i] = 'x'; return big[i] == 'x' && p[i] == 'x' ? 0 : 3; case 1: rows[i / 2][1] = 'y'; return p[(i / 2) * 2 + 1] == 'y' ? 0 : 3;
			case 2: { auto&& s2 = big.sliced(5, i + 1); return (s2.size() == i - 4 && &s2[i - 5] == p + i) ? 0 : 3; } default: { auto&& s3 = rows({1, i / 2 + 1}, 1); return (s3.size() == i / 2 && &s3[i / 2 - 1] == p + (i / 2) * 2 + 1) ? 0 : 3; } } }, &err);
	std::string site; int cl = classify(rc, err, &site); count("huge-extent-probes"); count(std::string("outcome:huge-extent:") + (cl == 0 ? "asserted" : rc == 0 ? "fine" : "other"));
	if(cl == 0) violation(std::string("C20:huge-extent:") + KN[kind] + ":valid-use-stopped-by-assertion", "a valid " + std::string(KN[kind]) + " at " + std::to_string(i) + " of a view with " + std::to_string(n) + " elements fired the assertion at " + site, false);
	else if(rc != 0) violation(std::string("C20:huge-extent:") + KN[kind] + ":wrong", "a valid " + std::string(KN[kind]) + " of a view with more than 2^32 elements designates another element (or crashed): rc=" + std::to_string(rc) + " " + err.substr(0, 160), false);
	munmap(mp, total); nontrivial(true);
}

// ---- a view assigned a std range (vector, std::array, vector of vectors) of another length: stopped by an assertion BEFORE anything is written (destination and neighbours intact at the time of the stop)
static void range_assign_probe(Rng& g) {
	L const rows = g.in(2, 4), cols = g.in(2, 5); int const kind = int(g.below(4)); bool const longer = g.chance(1, 2); static char const* KN[] = {"row=vector", "array_ref1d()=std::array", "rows=vector<vector>", "named-row=vector"};
	std::string const what = std::string(KN[kind]) + (longer ? ":longer-source" : ":shorter-source"); describe(" range-assign " + what); sig_mix("range-assign"); sig_mix(what.c_str()); op(("death:range-assign:" + what).c_str()); count("death_probes:range-assign"); std::string err;
	int rc = fork_run([&] { st().expect_death = true; st().assert_throws = true; L const G2 = 64; std::vector<int> buf(std::size_t(rows * cols + 2 * G2), -7); for(L k = 0; k < rows * cols; ++k) buf[std::size_t(G2 + k)] = int(k); std::vector<int> const snap = buf;
		multi::array_ref<int, 2> A({rows, cols}, buf.data() + G2); L const len = cols + (longer ? 2 : -1); bool stopped = false;
		try { switch(kind) {
			case 0: { std::vector<int> v(std::size_t(len), 99); A[1] = v; break; }
			case 1: { std::array<int, 7> sa{}; sa.fill(99); multi::array_ref<int, 1> R1(multi::extensions_t<1>{longer ? 5 : 9}, buf.data() + G2); R1() = sa; break; }
			case 2: { std::vector<std::vector<int>> vv(std::size_t(rows + (longer ? 1 : -1)), std::vector<int>(std::size_t(cols), 99)); A() = vv; break; }
			default: { std::vector<int> v(std::size_t(len), 99); auto&& row = A[0]; row = v; break; } }
		} catch(assertion_failure const&) { stopped = true; }
		if(!stopped) return 94; return buf == snap ? 0 : 93; }, &err);
	count(std::string("outcome:range-assign:") + (rc == 0 ? "stopped-clean" : rc == 93 ? "wrote-before-the-assertion" : rc == 94 ? "survived" : "other"));
	if(rc == 93) violation("C20:death:range-assign:" + what + ":wrote-before-the-assertion", std::string(KN[kind]) + " with a source of another length was stopped by an assertion only after elements had been overwritten", false);
	else if(rc != 0) violation("C20:death:range-assign:" + what + ":not-stopped-by-assertion", std::string(KN[kind]) + " with a source of another length " + (rc == 94 ? "survived silently" : "ended with rc=" + std::to_string(rc) + " " + err.substr(0, 160)), false);
	nontrivial(true);
}

template<int D> void one(Case& c, Prog const& p) {
	auto exts = make_extensions<D>(p.root); MV m = MV::root(p.root);
	describe("D=" + std::to_string(D) + " root=" + m.shape() + ":");
	// the root sits in the middle of a larger buffer: a surviving out-of-range access stays inside the buffer
	L const n = m.n(); L const G = 4096; std::vector<int> buf(std::size_t(n + 2 * G), -7); multi::array_ref<int, D> R(exts, buf.data() + G);
	DeathVis vis{&c.rng}; Interp<DeathVis> I{vis, p}; I.run(R(), m, 0, "root");
}

int main(int argc, char** argv) {
	return main_loop(argc, argv, [&](Case& c) {
		static bool init = false; if(!init) { init = true; auto& a = st().args; for(std::size_t i = 0; i + 1 < a.size(); ++i) { if(a[i] == "--maxext") cfg.max_ext = std::atoi(a[i + 1].c_str()); if(a[i] == "--maxops") cfg.max_ops = std::atoi(a[i + 1].c_str()); } }
		if(c.k % 40 == 9) { huge_extent_probe(c.rng); return; }
		if(c.k % 40 == 29 || c.k % 40 == 19) { range_assign_probe(c.rng); return; }
		if(c.k % 2 == 0) { Prog p = gen_prog(c.rng, cfg);
			switch(p.root.size()) { case 1: one<1>(c, p); break; case 2: one<2>(c, p); break; case 3: one<3>(c, p); break; default: one<4>(c, p); break; } }
		else { describe("assign-probe"); switch(c.rng.below(3)) { case 0: assign_probes<1>(c.rng); break; case 1: assign_probes<2>(c.rng); break; default: assign_probes<3>(c.rng); break; } }
	});
}
