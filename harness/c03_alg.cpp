// C03 — standard algorithms on begin()/end() (proxy sub-views for D>1) and on elements() of views act as on independent values.
// Differential against the same algorithm on a std::vector model; contents are read back through raw root storage + table model.
#define VK_MAIN
#include "../kit/viewprog.hpp"
#include <algorithm>
#include <functional>
#include <numeric>
using namespace vk;

using Val = std::vector<int>;  // model value: flattened (canonical order) sub-view, or a single element

static char const* ALG[] = {"sort", "stable_sort", "partial_sort", "nth_element", "rotate", "reverse", "partition", "unique", "remove", "copy", "copy_backward", "move", "swap_ranges", "fill", "transform", "find", "equal", "is_sorted", "accumulate", "lexicographical_compare", "sort(greater)", "stable_sort(greater)", "is_sorted(greater)", "lexicographical_compare(greater)"};
constexpr int NALG = 24;  // 20..23: the comparator forms (std::greater<>, i.e. operator> of the proxies)

// ---- helpers that work on ints, model values and real rows alike
inline int head(int x) { return x; }
inline int head(Val const& x) { return x[0]; }
template<class R, class = decltype(std::declval<R const&>().elements())> int head(R const& r) { return int(*r.elements().begin()); }
inline unsigned long hsh(int x) { return 7UL * 31 + (unsigned long)x; }
inline unsigned long hsh(Val const& x) { unsigned long h = 7; for(int e : x) h = h * 31 + (unsigned long)e; return h; }
template<class R, class = decltype(std::declval<R const&>().elements())> unsigned long hsh(R const& r) { unsigned long h = 7; for(auto const& e : r.elements()) h = h * 31 + (unsigned long)int(e); return h; }
inline int twice(int x) { return 2 * x + 1; }
inline Val twice(Val x) { for(int& e : x) e = 2 * e + 1; return x; }
template<class R, class = decltype(std::declval<R const&>().elements())> auto twice(R const& r) { typename R::decay_type t = r; for(auto& e : t.elements()) e = 2 * e + 1; return t; }

struct Res { L pos = -1; unsigned long val = 0; };
static bool g_proxy_val = false;  // find: search for the proxy reference *(b2+k) itself instead of a value_type copy

template<class It, class It2> Res run_alg(int alg, It b, It e, It2 b2, It2 e2, L mid, L k) {
	Res r; using VT = typename std::iterator_traits<It>::value_type;
	switch(alg) {
	case 0: std::sort(b, e); break;
	case 1: std::stable_sort(b, e); break;
	case 2: std::partial_sort(b, b + mid, e); break;
	case 3: if(b != e) std::nth_element(b, b + k, e); break;
	case 4: r.pos = std::rotate(b, b + mid, e) - b; break;
	case 5: std::reverse(b, e); break;
	case 6: r.pos = std::partition(b, e, [](auto const& x) { return head(x) < 2; }) - b; break;
	case 7: r.pos = std::unique(b, e) - b; break;
	case 8: if(b != e) { VT v(*(b + k)); r.pos = std::remove(b, e, v) - b; } break;
	case 9: r.pos = std::copy(b, e, b2) - b2; break;
	case 10: r.pos = std::copy_backward(b, b + mid, e) - b; break;
	case 11: r.pos = std::move(b, e, b2) - b2; break;
	case 12: r.pos = std::swap_ranges(b, e, b2) - b2; break;
	case 13: if(b2 != e2) { VT v(*(b2 + k)); std::fill(b, e, v); } break;
	case 14: r.pos = std::transform(b, e, b2, [](auto const& x) { return twice(x); }) - b2; break;
	case 15: if(b2 != e2) { if(g_proxy_val) { auto&& v = *(b2 + k); r.pos = std::find(b, e, v) - b; } else { VT v(*(b2 + k)); r.pos = std::find(b, e, v) - b; } } break;
	case 16: r.val = std::equal(b, e, b2) ? 1 : 0; break;
	case 17: r.val = std::is_sorted(b, e) ? 1 : 0; break;
	case 18: r.val = std::accumulate(b, e, 0UL, [](unsigned long a, auto const& x) { return a * 1000003UL + hsh(x); }); break;
	case 19: r.val = std::lexicographical_compare(b, e, b2, e2) ? 1 : 0; break;
	case 20: std::sort(b, e, std::greater<>{}); break;
	case 21: std::stable_sort(b, e, std::greater<>{}); break;
	case 22: r.val = std::is_sorted(b, e, std::greater<>{}) ? 1 : 0; break;
	default: r.val = std::lexicographical_compare(b, e, b2, e2, std::greater<>{}) ? 1 : 0; break;
	}
	return r;
}

// read the sequence designated by a view model out of raw root storage: lead = positions are leading indices; else every element
static std::vector<Val> read_seq(int const* root, MV const& m, bool lead) {
	std::vector<Val> s; if(m.has_zero()) return s;
	L n = lead ? m.size[0] : m.n(); L sub = m.n() / n; s.resize(std::size_t(n));
	for(L i = 0; i < n; ++i) for(L j = 0; j < sub; ++j) s[std::size_t(i)].push_back(root[m.off[std::size_t(i * sub + j)]]);
	return s;
}

static bool is_perm(std::vector<Val> a, std::vector<Val> b) { std::sort(a.begin(), a.end()); std::sort(b.begin(), b.end()); return a == b; }

struct Ctx3 { int alg; bool lead; L mid, k; Rng* g; std::string fam; bool alias; bool cross = false; };

// core: v/vb are real mutable views of A/B (same family, same shape); m their common model
template<class V, class VB> void exercise(V&& v, VB&& vb, MV const& m, MV const& m2, std::vector<int>& rootA, std::vector<int>& rootB, int* pa, int* pb, Ctx3& c) {
	constexpr int R = rank_of<V>;
	std::string const K = std::string("C03:") + ALG[c.alg] + ":" + (c.lead ? (R == 1 ? "lead1" : "leadN") : "elements") + ":";
	// snapshot roots
	std::copy(pa, pa + rootA.size(), rootA.begin()); std::copy(pb, pb + rootB.size(), rootB.begin());
	std::vector<Val> sa = read_seq(pa, m, c.lead), sb = read_seq(pb, m2, c.lead);
	L const n = L(sa.size()); c.mid = n ? c.g->below(n + 1) : 0; c.k = n ? c.g->below(n) : 0;
	describe(" " + c.fam + (c.lead ? " lead" : " elements") + " view=" + m.shape() + " alg=" + ALG[c.alg] + " n=" + std::to_string(n) + " mid=" + std::to_string(c.mid) + " k=" + std::to_string(c.k));
	sig_mix(std::uint64_t(c.alg)); sig_mix(c.fam.c_str()); sig_mix(std::uint64_t(c.lead)); sig_mix(std::uint64_t(R)); sig_mix(std::uint64_t(std::min<L>(n, 3)));
	op((std::string(ALG[c.alg]) + (c.lead ? ":lead" : ":elements")).c_str());
	// model run
	// (empty ranges: the model is the trivial one — position 0, neutral result — std::vector iterators of an empty vector are null pointers)
	std::vector<Val> ma = sa, mb = sb; Res rm;
	if(n > 0) { rm = run_alg(c.alg, ma.begin(), ma.end(), mb.begin(), mb.end(), c.mid, c.k); }
	else { bool const haspos = (c.alg == 4 || (c.alg >= 6 && c.alg <= 12) || c.alg == 14 || c.alg == 15) && !(c.alg == 8 || c.alg == 15); rm.pos = haspos ? 0 : -1; rm.val = (c.alg == 16 || c.alg == 17 || c.alg == 22) ? 1 : 0; }
	// real run
	Res rr;
	if(c.lead) { rr = run_alg(c.alg, v.begin(), v.end(), vb.begin(), vb.end(), c.mid, c.k); }
	else { auto&& ea = v.elements(); auto&& eb = vb.elements(); bool done = false;
		// iterator OBJECTS that were bound to a range of other extents first and then copy-assigned (the "declare, assign later / re-use the variable" call form): the algorithm must see the assigned range
		if(m.size[0] >= 2 && c.g->chance(1, 3)) { L const f0 = L(v.extension().first()); auto&& w = v.sliced(f0, f0 + m.size[0] - 1); auto&& ew = w.elements(); if constexpr(std::is_same_v<decltype(ew.begin()), decltype(ea.begin())>) { auto t1 = ew.begin(); auto t2 = ew.end(); t1 = ea.begin(); t2 = ea.end(); count("elements-iterators-reassigned-from-another-range"); rr = run_alg(c.alg, t1, t2, eb.begin(), eb.end(), c.mid, c.k); done = true; } }
		if(!done) rr = run_alg(c.alg, ea.begin(), ea.end(), eb.begin(), eb.end(), c.mid, c.k); }
	// observe through raw storage + model
	std::vector<Val> aa = read_seq(pa, m, c.lead), ab = read_seq(pb, m2, c.lead);
	auto cmp_exact = [&](char const* what, std::vector<Val> const& got, std::vector<Val> const& want) { if(got != want) violation(K + what, std::string("viewed elements after ") + ALG[c.alg] + " differ from the std::vector run"); };
	switch(c.alg) {
	case 0: if(!std::is_sorted(aa.begin(), aa.end())) violation(K + "not-sorted", "range not sorted after sort"); if(!is_perm(aa, sa)) violation(K + "not-permutation", "sort lost/duplicated values"); break;
	case 2: if(!std::is_sorted(aa.begin(), aa.begin() + c.mid)) violation(K + "prefix-not-sorted", "partial_sort prefix not sorted"); if(!is_perm(aa, sa)) violation(K + "not-permutation", "partial_sort lost/duplicated values");
		for(L i = c.mid; i < n && c.mid > 0; ++i) if(aa[std::size_t(i)] < aa[std::size_t(c.mid - 1)]) violation(K + "prefix-not-smallest", "partial_sort: element after middle smaller than prefix"); break;
	case 3: if(n) { if(!is_perm(aa, sa)) violation(K + "not-permutation", "nth_element lost/duplicated values"); auto srt = sa; std::sort(srt.begin(), srt.end()); if(aa[std::size_t(c.k)] != srt[std::size_t(c.k)]) violation(K + "nth-wrong", "nth element is not the k-th smallest");
		for(L i = 0; i < n; ++i) if((i < c.k && aa[std::size_t(c.k)] < aa[std::size_t(i)]) || (i > c.k && aa[std::size_t(i)] < aa[std::size_t(c.k)])) violation(K + "not-partitioned", "nth_element did not partition around nth"); } break;
	case 6: { if(!is_perm(aa, sa)) violation(K + "not-permutation", "partition lost/duplicated values"); L cnt = 0; for(auto const& x : sa) cnt += (x[0] < 2); if(rr.pos != cnt) violation(K + "position", "partition point " + std::to_string(rr.pos) + " != count " + std::to_string(cnt));
		for(L i = 0; i < n; ++i) if((aa[std::size_t(i)][0] < 2) != (i < rr.pos)) violation(K + "not-partitioned", "element on the wrong side of the partition point"); } break;
	case 7: case 8: if(rr.pos != rm.pos) violation(K + "position", "returned position " + std::to_string(rr.pos) + " vs " + std::to_string(rm.pos)); else if(rr.pos > 0 && !std::equal(aa.begin(), aa.begin() + rr.pos, ma.begin())) violation(K + "prefix", "kept prefix differs from the std::vector run"); break;
	case 11: if(rr.pos != rm.pos) violation(K + "position", "returned position differs"); cmp_exact("destination", ab, mb); break;
	default:
		if(rr.pos != rm.pos) violation(K + "position", "returned position " + std::to_string(rr.pos) + " vs " + std::to_string(rm.pos));
		if(rr.val != rm.val) violation(K + "result", "returned value " + std::to_string(rr.val) + " vs " + std::to_string(rm.val));
		cmp_exact("contents", aa, ma); cmp_exact("second-range", ab, mb); break;
	}
	// complement: every root element outside the view is unchanged (both roots)
	std::vector<char> in(rootA.size(), 0), inb(rootA.size(), 0); for(L o : m.off) in[std::size_t(o)] = 1; for(L o : m2.off) inb[std::size_t(o)] = 1;
	for(std::size_t i = 0; i < rootA.size(); ++i) { if(!in[i] && pa != pb && pa[i] != rootA[i]) violation(K + "outside-view-modified", "element outside the view changed (root offset " + std::to_string(i) + ")"); if(!inb[i] && pa != pb && pb[i] != rootB[i]) violation(K + "outside-view-modified-2nd", "element outside the second view changed"); }
	// read-only algorithms must not modify anything
	if((c.alg >= 15 && c.alg < 20) || c.alg >= 22) { for(std::size_t i = 0; i < rootA.size(); ++i) if(pa[i] != rootA[i] || pb[i] != rootB[i]) violation(K + "input-modified", "read-only algorithm modified its input"); }
	count(std::string("alg:") + ALG[c.alg]); count(c.lead ? "range:lead" : "range:elements"); count("elements_compared", L(aa.size()) * (aa.empty() ? 0 : L(aa[0].size())));
	nontrivial(n >= 2);
}

// families of mutable views: f(viewA, viewB, model)
template<int D, class F> void with_family(int fam, multi::array<int, D>& A, multi::array<int, D>& B, MV const& m, Ctx3& c, F&& f4) {
	L const s0 = m.size[0];
	auto f = [&](auto&& a, auto&& b, MV const& mm) { f4(std::forward<decltype(a)>(a), std::forward<decltype(b)>(b), mm, mm); };
	if constexpr(D == 1) {
		switch(fam % 4) {
		case 0: c.fam = "whole"; f(A(), B(), m); return;
		case 1: if(s0 >= 2) { c.fam = "sliced"; f(A.sliced(1, s0), B.sliced(1, s0), m_sliced(m, 1, s0)); return; } break;
		case 2: if(s0 % 2 == 0 && s0 > 0) { c.fam = "strided2"; f(A.strided(2), B.strided(2), m_strided(m, 2)); return; } break;
		default: if(s0 % 3 == 0 && s0 >= 6) { c.fam = "sliced-strided3"; f(A.sliced(0, s0).strided(3), B.sliced(0, s0).strided(3), m_strided(m, 3)); return; } break;
		}
		c.fam = "whole"; f(A(), B(), m);
	} else if constexpr(D == 2) {
		L const s1 = m.size[1];
		if(c.alias && s0 == s1) { if(fam % 2) { c.fam = "alias:whole-vs-transposed"; f4(A(), A.transposed(), m, m_transposed(m)); } else { c.fam = "alias:rotated-vs-whole"; f4(A.rotated(), A(), m_rotated(m), m); } return; }
		if(c.alias && s0 == s1 + 1 && s1 >= 1) { c.fam = "alias:top-block-vs-bottom-block-transposed"; f4(A.sliced(0, s1), A.sliced(1, s0).transposed(), m_sliced(m, 0, s1), m_transposed(m_sliced(m, 1, s0))); return; }
		if(c.cross && s0 == s1) { c.fam = "cross:whole-vs-transposed-of-B"; f4(A(), B.transposed(), m, m_transposed(m)); return; }  // second range: same extents, other strides, other root
		switch(fam % 9) {
		case 0: c.fam = "whole"; f(A(), B(), m); return;
		case 1: if(s0 >= 2 && s1 >= 3) { c.fam = "block"; std::vector<CallArg> as{{1, 1, s0}, {1, 1, s1 - 1}}; f(A({1, s0}, {1, s1 - 1}), B({1, s0}, {1, s1 - 1}), m_call(m, as)); return; } break;
		case 2: c.fam = "rotated"; f(A.rotated(), B.rotated(), m_rotated(m)); return;
		case 3: if(s0 % 2 == 0) { c.fam = "strided2"; f(A.strided(2), B.strided(2), m_strided(m, 2)); return; } break;
		case 4: if(s0 >= 2 && s1 >= 3) { c.fam = "block-transposed"; std::vector<CallArg> as{{1, 1, s0}, {1, 1, s1 - 1}}; f(A({1, s0}, {1, s1 - 1}).transposed(), B({1, s0}, {1, s1 - 1}).transposed(), m_transposed(m_call(m, as))); return; } break;
		case 5: { c.fam = "column"; L j = s1 / 2; f(A.rotated()[j], B.rotated()[j], m_index(m_rotated(m), j)); return; }
		case 6: c.fam = "diagonal"; f(A.diagonal(), B.diagonal(), m_diagonal(m)); return;
		case 7: { c.fam = "row"; L i = s0 / 2; f(A[i], B[i], m_index(m, i)); return; }
		default: if(s1 % 2 == 0) { c.fam = "rotated-strided2-unrotated"; f(A.rotated().strided(2).unrotated(), B.rotated().strided(2).unrotated(), m_unrotated(m_strided(m_rotated(m), 2))); return; } break;
		}
		c.fam = "whole"; f(A(), B(), m);
	} else {
		L const s1 = m.size[1], s2 = m.size[2];
		if(c.alias && s1 == s2) { c.fam = "alias:whole-vs-inner-transposed"; f4(A(), A.rotated().transposed().unrotated(), m, m_unrotated(m_transposed(m_rotated(m)))); return; }
		if(c.alias && s0 == s1) { c.fam = "alias:whole-vs-transposed"; f4(A(), A.transposed(), m, m_transposed(m)); return; }
		if(c.cross && s0 == s1) { c.fam = "cross:whole-vs-transposed-of-B"; f4(A(), B.transposed(), m, m_transposed(m)); return; }  // second range: same extents, other strides, other root
		switch(fam % 7) {
		case 0: c.fam = "whole"; f(A(), B(), m); return;
		case 1: if(s0 >= 2 && s1 >= 2 && s2 >= 2) { c.fam = "block"; std::vector<CallArg> as{{1, 1, s0}, {1, 0, s1 - 1}, {1, 1, s2}}; f(A({1, s0}, {0, s1 - 1}, {1, s2}), B({1, s0}, {0, s1 - 1}, {1, s2}), m_call(m, as)); return; } break;
		case 2: c.fam = "rotated"; f(A.rotated(), B.rotated(), m_rotated(m)); return;
		case 3: c.fam = "transposed"; f(A.transposed(), B.transposed(), m_transposed(m)); return;
		case 4: { c.fam = "sub[i]"; L i = s0 / 2; f(A[i], B[i], m_index(m, i)); return; }
		case 5: { c.fam = "unrotated[i]"; L i = s2 / 2; f(A.unrotated()[i], B.unrotated()[i], m_index(m_unrotated(m), i)); return; }
		default: if(s0 % 2 == 0) { c.fam = "strided2"; f(A.strided(2), B.strided(2), m_strided(m, 2)); return; } break;
		}
		c.fam = "whole"; f(A(), B(), m);
	}
}

static int MAXEXT = 6; static int VALS = 4; static int ONLY_ALG = -1;

template<int D> void one(Case& cs) {
	Rng& g = cs.rng; std::vector<L> sz; for(int d = 0; d < D; ++d) sz.push_back(d == 0 ? g.in(0, MAXEXT + (D == 1 ? 3 : 0)) : g.in(1, D == 3 ? 3 : MAXEXT - 1)); if(sz[0] == 0 && g.chance(3, 4)) sz[0] = g.in(1, MAXEXT);
	Ctx3 c{ONLY_ALG >= 0 ? ONLY_ALG : int(g.below(NALG)), g.chance(1, 2), 0, 0, &g, "", false};
	c.alias = (c.alg == 15 || c.alg == 16 || c.alg == 19) && g.chance(1, 2);  // read-only two-range algorithms: the second range may be another view of the SAME root
	g_proxy_val = g.chance(1, 2);
	c.cross = !c.alias && D >= 2 && (c.alg == 9 || c.alg == 11 || c.alg == 12 || c.alg == 14 || c.alg == 16) && g.chance(1, 3);  // two-range algorithms whose second range has the same extents but another layout
	if(c.cross) { if(sz[0] == 0) sz[0] = 2; sz[1] = sz[0]; }
	if(c.alias && D >= 2) {  // shapes for which a same-shape, differently laid out view of the same root exists
		if(sz[0] == 0) sz[0] = 2;
		if(D == 3) { if(g.chance(1, 2)) sz[2] = sz[1]; else { sz[0] = std::min<L>(sz[0], 3); sz[1] = sz[0]; } }
		else { if(g.chance(2, 3)) sz[1] = sz[0]; else sz[0] = sz[1] + 1; } }
	MV m = MV::root(sz); auto exts = make_extensions<D>(sz);
	multi::array<int, D> A(exts), B(exts); int* pa = A.data_elements(); int* pb = B.data_elements(); L const N = m.n();
	bool const same = g.chance(1, 3);
	for(L i = 0; i < N; ++i) { pa[i] = int(g.below(c.alias ? 2 : VALS)); pb[i] = same ? pa[i] : int(g.below(VALS)); }
	if(same && N && g.chance(1, 2)) pb[g.below(N)] ^= 1;
	if(c.alias && D == 2 && N && g.chance(1, 2)) { for(L i = 0; i < sz[0] && i < sz[1]; ++i) for(L j = 0; j < i; ++j) if(g.chance(3, 4)) pa[i * sz[1] + j] = pa[j * sz[1] + i]; }  // near-symmetric data
	std::vector<int> ra(std::size_t(N), 0), rb(std::size_t(N), 0);
	describe("D=" + std::to_string(D) + " root=" + m.shape()); sig_mix(std::uint64_t(D));
	if(m.has_zero()) {  // empty root: algorithms on empty ranges must be no-ops
		c.fam = "empty-root"; exercise(A(), B(), m, m, ra, rb, pa, pb, c); return; }
	int const fam = int(g.below(63));
	with_family<D>(fam, A, B, m, c, [&](auto&& va, auto&& vb, MV const& vm, MV const& vmb) {
		bool const aliased = c.fam.rfind("alias:", 0) == 0; if(aliased) count("aliased_second_range"); if(c.fam.rfind("cross:", 0) == 0) count("cross_layout_second_range");
		// one time in four the same ranges with first indices other than 0 in the first two dimensions (reindexed(i, j) of a D >= 2 view): positions, values and algorithms do not depend on index bases
		if constexpr(rank_of<decltype(va)> >= 2 && rank_of<decltype(vb)> >= 2) { if(g.chance(1, 4)) { L const r0 = g.in(-2, 3), r1 = g.in(1, 3); count("re-based-ranges"); c.fam += "+reindexed";
			exercise(va.reindexed(r0, r1), vb.reindexed(r0, r1), vm, vmb, ra, aliased ? ra : rb, pa, aliased ? pa : pb, c); return; } }
		exercise(std::forward<decltype(va)>(va), std::forward<decltype(vb)>(vb), vm, vmb, ra, aliased ? ra : rb, pa, aliased ? pa : pb, c); });
}

// Non-modifying algorithms over the ROWS of two 2-D arrays of different static types (int rows against long rows, read-only reference rows against array rows): the rows are
// compared with `==` as independent values would be - equal only when they have the same length and the same elements - so std::equal / mismatch / find_if / count_if give the
// results of the same calls over std::vector<std::vector<>> operands, also when every row of one operand is a proper PREFIX of the corresponding row of the other.
static void hetero_rows_probe(Case& c) {
	Rng& g = c.rng; L const r = g.in(1, 3), p = g.in(1, 3); bool const samelen = g.chance(1, 3); L const q = samelen ? p : p + g.in(1, 2); bool const differ = g.chance(1, 3); int const form = int(g.below(2));
	describe("hetero-rows probe " + std::to_string(r) + "x" + std::to_string(p) + " vs " + std::to_string(r) + "x" + std::to_string(q) + (differ ? " one element differs" : " prefix rows") + (form ? " int-const-ref~int" : " int~long")); sig_mix("hetero-rows"); sig_mix(std::uint64_t((samelen ? 1 : 0) + 2 * (differ ? 1 : 0) + 4 * form)); op("hetero-rows"); count("hetero-rows-probes");
	std::vector<std::vector<long>> ma, mb; ma.assign(std::size_t(r), std::vector<long>(std::size_t(p), 0L)); mb.assign(std::size_t(r), std::vector<long>(std::size_t(q), 0L));
	for(L i = 0; i < r; ++i) for(L j = 0; j < q; ++j) { long v = long(g.below(3)); mb[std::size_t(i)][std::size_t(j)] = v; if(j < p) ma[std::size_t(i)][std::size_t(j)] = v; }
	if(differ) { L i = g.below(r), j = g.below(p); ma[std::size_t(i)][std::size_t(j)] += 5; }
	multi::array<int, 2> A({r, p}); multi::array<long, 2> B({r, q}); multi::array<int, 2> Bi({r, q});
	for(L i = 0; i < r; ++i) { for(L j = 0; j < p; ++j) A[i][j] = int(ma[std::size_t(i)][std::size_t(j)]); for(L j = 0; j < q; ++j) { B[i][j] = mb[std::size_t(i)][std::size_t(j)]; Bi[i][j] = int(mb[std::size_t(i)][std::size_t(j)]); } }
	auto run = [&](auto const& X, auto const& Y, char const* kp) { std::string const K = std::string("C03:hetero-rows:") + kp + ":";
		bool const me = std::equal(ma.begin(), ma.end(), mb.begin()); bool const ge = std::equal(X.begin(), X.end(), Y.begin()); if(ge != me) violation(K + "equal", std::string("std::equal over the rows returned ") + (ge ? "true" : "false") + ", over vectors of vectors " + (me ? "true" : "false"));
		auto mm = std::mismatch(ma.begin(), ma.end(), mb.begin()).first - ma.begin(); auto gm = std::mismatch(X.begin(), X.end(), Y.begin()).first - X.begin(); if(L(gm) != L(mm)) violation(K + "mismatch", "std::mismatch stops at row " + std::to_string(L(gm)) + ", over vectors of vectors at row " + std::to_string(L(mm)));
		auto mf = std::find_if(mb.begin(), mb.end(), [&](auto const& row) { return ma[0] == row; }) - mb.begin(); auto gf = std::find_if(Y.begin(), Y.end(), [&](auto const& row) { return X[0] == row; }) - Y.begin(); if(L(gf) != L(mf)) violation(K + "find_if", "std::find_if(row == first row of the other operand) stops at row " + std::to_string(L(gf)) + ", over vectors of vectors at row " + std::to_string(L(mf)));
		auto mc = std::count_if(mb.begin(), mb.end(), [&](auto const& row) { return row == ma[0]; }); auto gc = std::count_if(Y.begin(), Y.end(), [&](auto const& row) { return row == X[0]; }); if(L(gc) != L(mc)) violation(K + "count_if", "std::count_if counts " + std::to_string(L(gc)) + " rows, over vectors of vectors " + std::to_string(L(mc))); };
	if(form == 0) run(A, B, "int~long"); else { multi::array_ref<int const, 2> AR(A.extensions(), A.data_elements()); run(AR, Bi, "int-const-ref~int"); }
	nontrivial(true);
}

int main(int argc, char** argv) {
	return main_loop(argc, argv, [&](Case& c) {
		static bool init = false; if(!init) { init = true; auto& a = st().args;
			for(std::size_t i = 0; i < a.size(); ++i) { auto val = [&] { return i + 1 < a.size() ? std::atol(a[i + 1].c_str()) : 0; };
				if(a[i] == "--maxext") MAXEXT = int(val()); else if(a[i] == "--vals") VALS = int(val()); else if(a[i] == "--alg") ONLY_ALG = int(val()); } }
		if(c.k % 25 == 11) { hetero_rows_probe(c); return; }
#ifdef C03_D
		one<C03_D>(c);
#else
		switch(c.rng.below(3)) { case 0: one<1>(c); break; case 1: one<2>(c); break; default: one<3>(c); break; }
#endif
	});
}
