// E-HIST for multi::static_array<T, D, Alloc> (the owning array whose extents are fixed at construction): histories of constructions, copies,
// moves (which allocate and move the ELEMENTS: the source keeps its extents), same-extent assignments and swaps over a pool of three arrays,
// monitored against a value model (C04), a live-object registry and an allocation ledger (C08).      -DSA_T=1 tracked<int> | 2 std::string      -DSA_D=<1..3>
#define VK_MAIN
#include "../kit/viewprog.hpp"
#include "../kit/tracked.hpp"
#include <optional>
using namespace vk;

#ifndef SA_T
#define SA_T 1
#endif
#ifndef SA_D
#define SA_D 2
#endif
constexpr int D = SA_D;
#if SA_T == 1
using Elem = tracked<int>; static Elem mk(long id) { return Elem(int(id)); } static long id_of(Elem const& e) { return e.get(); }
constexpr bool MOVED_FROM_KEEPS_VALUE = true;   // tracked<int>'s move operations copy the value
#else
using Elem = std::string; static Elem mk(long id) { return std::string(20, 's') + std::to_string(id); } static long id_of(Elem const& e) { return e.size() <= 20 ? 0 : std::atol(e.c_str() + 20); }
constexpr bool MOVED_FROM_KEEPS_VALUE = false;  // a moved-from std::string is valid but unspecified
#endif
using Alloc = ledger_alloc<Elem, 0>;
using SA = multi::static_array<Elem, D, Alloc>; using Arr = multi::array<Elem, D, Alloc>;

struct Model { std::vector<L> ext; std::vector<long> ids; bool unspec = false; L n() const { L q = 1; for(auto x : ext) q *= x; return q; } };
struct Slot { std::optional<SA> a; Model m; };
static std::string PROP = "C04"; static int MAXEXT = 3; static int MAXSTEPS = 12; static long next_id = 1;

static void V(std::string const& key, std::string const& detail) { if(key.compare(0, 3, PROP) == 0) violation(key, detail); else count("otherprop:" + key); }
static void install_soft_sink() { softcfg().sink = [](std::string const& prop, std::string const& key, std::string const& detail) {
	if(prop != PROP) { count("otherprop:" + key); return; } if(st().case_viol > 0) { count("consequent:" + key); return; } violation(key, detail, false); }; }
static void poll() { if(st().case_viol > 0) throw stop_case{}; }
static std::vector<L> rnd_ext(Rng& g) { std::vector<L> e; for(int d = 0; d < D; ++d) e.push_back(g.in(1, MAXEXT)); return e; }
static Model fresh(std::vector<L> const& e) { Model m; m.ext = e; for(L k = 0; k < m.n(); ++k) m.ids.push_back(next_id++); return m; }
static Model filled(std::vector<L> const& e, long id) { Model m; m.ext = e; m.ids.assign(std::size_t(m.n()), id); return m; }
template<class A> void write_ids(A& a, Model const& m) { Elem* p = a.data_elements(); for(L k = 0; k < m.n(); ++k) p[k] = mk(m.ids[std::size_t(k)]); }

static bool matches(SA const& a, Model& m, std::string& why) {
	if(tuple_to_vec(a.sizes()) != m.ext) { why = "sizes " + join(tuple_to_vec(a.sizes()), "x") + " != model " + join(m.ext, "x"); return false; }
	if(a.num_elements() != m.n()) { why = "num_elements differs"; return false; }
	Elem const* p = a.data_elements(); if(m.n() > 0 && p == nullptr) { why = "null data_elements for a non-empty array"; return false; }
	if(m.unspec) { m.ids.clear(); for(L k = 0; k < m.n(); ++k) m.ids.push_back(id_of(p[k])); m.unspec = false; return true; }
	for(L k = 0; k < m.n(); ++k) if(id_of(p[k]) != m.ids[std::size_t(k)]) { why = "element " + std::to_string(k) + " (canonical order) holds id " + std::to_string(id_of(p[k])) + ", model says " + std::to_string(m.ids[std::size_t(k)]); return false; }
	// the same elements through indexing and through elements()
	{ L k = 0; for(auto const& e : a.elements()) { if(id_of(e) != m.ids[std::size_t(k)]) { why = "elements() order differs from data_elements()"; return false; } ++k; } if(k != m.n()) { why = "elements() has another length"; return false; } }
	return true;
}
static void check_all(std::array<Slot, 3>& pool, std::string const& opk) {
	poll(); L live_elems = 0; std::size_t blocks = 0;
	for(std::size_t i = 0; i < 3; ++i) { auto& s = pool[i]; if(!s.a) continue; std::string why;
		if(!matches(*s.a, s.m, why)) V("C04:static_array:" + opk + ":array-differs-from-model", "slot " + std::to_string(i) + ": " + why);
		live_elems += s.m.n(); if(s.m.n() > 0) ++blocks;
		for(std::size_t j = i + 1; j < 3; ++j) if(pool[j].a && s.m.n() > 0 && pool[j].m.n() > 0) { auto* p = s.a->data_elements(); auto* q = pool[j].a->data_elements(); if(!(p + s.m.n() <= q || q + pool[j].m.n() <= p)) V("C04:static_array:" + opk + ":storage-shared", "two arrays share element storage"); } }
#if SA_T == 1
	if(L(registry().live.size()) != live_elems) V("C08:static_array:" + opk + ":live-elements-vs-extents", std::to_string(registry().live.size()) + " element objects alive, the arrays' extents account for " + std::to_string(live_elems));
#endif
	if(ledger().blocks.size() != blocks) V("C08:static_array:" + opk + ":blocks-vs-arrays", std::to_string(ledger().blocks.size()) + " blocks outstanding for " + std::to_string(blocks) + " non-empty arrays");
	for(auto const& kv : ledger().blocks) { bool found = false; for(auto& s : pool) if(s.a && s.m.n() > 0 && static_cast<void const*>(s.a->data_elements()) == kv.first) { found = true; if(L(kv.second.n) != s.m.n()) V("C08:static_array:" + opk + ":block-size-vs-extents", "an array of " + std::to_string(s.m.n()) + " elements owns a block of " + std::to_string(kv.second.n)); } if(!found) V("C08:static_array:" + opk + ":orphan-block", "an outstanding block is owned by no array"); }
	count("state_checks");
}

static void history(Case& c) {
	Rng& g = c.rng; registry().reset(); ledger().reset(); next_id = 1; faults() = Faults{};
	describe("static_array D=" + std::to_string(D) + ":"); sig_mix(std::uint64_t(D));
	{
		std::array<Slot, 3> pool; int const steps = int(g.in(4, MAXSTEPS)); int done = 0; bool had_move = false;
		for(int s = 0; s < steps; ++s) {
			int const kind = int(g.below(17)); std::size_t const a = std::size_t(g.below(3)); std::size_t b = std::size_t(g.below(3)); if(b == a) b = (a + 1) % 3;
			Slot& A = pool[a]; Slot& B = pool[b]; std::string opk; std::vector<L> const e = rnd_ext(g); Alloc al(int(g.in(1, 3)));
			auto begin = [&](char const* k) { opk = k; op(opk.c_str()); softcfg().opk = std::string("static_array:") + k; };
			auto same_extents = [&](Slot& X, Slot const& Y) { if(X.a && X.m.ext == Y.m.ext) return; X.a.reset(); Model nm = fresh(Y.m.ext); X.a.emplace(make_extensions<D>(Y.m.ext), mk(0)); write_ids(*X.a, nm); X.m = nm; };  // static_array assignment / swap need equal extents
			switch(kind) {
			case 0: { begin("ctor(ext,value)"); long id = next_id++; A.a.reset(); A.a.emplace(make_extensions<D>(e), mk(id)); A.m = filled(e, id); break; }
			case 1: { begin("ctor(ext,value,alloc)"); long id = next_id++; A.a.reset(); A.a.emplace(make_extensions<D>(e), mk(id), al); A.m = filled(e, id); if(!(A.a->get_allocator() == al)) V("C10:static_array:ctor(ext,value,alloc):allocator", "the supplied allocator is not the array's allocator"); break; }
			case 2: { begin("ctor(ext)"); A.a.reset(); A.a.emplace(make_extensions<D>(e)); A.m = filled(e, 0); break; }
			case 3: { if(!B.a) break; begin("copy-ctor"); A.a.reset(); A.a.emplace(std::as_const(*B.a)); A.m = B.m; break; }
			case 4: { if(!B.a) break; begin("move-ctor"); A.a.reset(); A.a.emplace(std::move(*B.a)); A.m = B.m; had_move = true;  // allocates and moves the elements; the source keeps its extents and holds moved-from elements
				if(!MOVED_FROM_KEEPS_VALUE) B.m.unspec = true; break; }
			case 5: { if(!B.a) break; same_extents(A, B); begin("copy-assign(same-extents)"); Elem const* before = A.a->data_elements(); *A.a = std::as_const(*B.a); A.m.ids = B.m.ids; A.m.unspec = B.m.unspec; if(A.a->data_elements() != before) V("C04:static_array:copy-assign:reallocated", "assignment between static_arrays of equal extents changed the storage"); break; }
			case 6: { if(!B.a) break; same_extents(A, B); begin("move-assign(same-extents)"); Elem const* before = A.a->data_elements(); Elem const* bbefore = B.a->data_elements(); *A.a = std::move(*B.a); A.m.ids = B.m.ids; A.m.unspec = B.m.unspec; had_move = true; if(!MOVED_FROM_KEEPS_VALUE) B.m.unspec = true;
				if(A.a->data_elements() != before || B.a->data_elements() != bbefore) V("C04:static_array:move-assign:storage-exchanged", "move assignment between static_arrays moves elements; a block changed hands"); break; }
			case 7: { if(!B.a) break; same_extents(A, B); begin("swap(same-extents)"); using std::swap; swap(*A.a, *B.a); std::swap(A.m.ids, B.m.ids); std::swap(A.m.unspec, B.m.unspec); break; }
			case 8: { begin("ctor(view)"); Model sm = fresh(e); Arr S(make_extensions<D>(e), mk(0)); write_ids(S, sm); int const f = int(g.below(4)); A.a.reset();
				if(f == 0) { A.a.emplace(S()); } else if(f == 1) { A.a.emplace(std::as_const(S)()); } else if(f == 2) { auto&& v = S(); A.a.emplace(v); } else { A.a.emplace(S(), al); } A.m = sm; break; }
#if SA_D >= 2
			case 9: { { begin("ctor(transposed-view)"); auto te = e; std::swap(te[0], te[1]); Model sm = fresh(te); Arr S(make_extensions<D>(te), mk(0)); write_ids(S, sm); A.a.reset(); A.a.emplace(S.transposed());
				Model nm; nm.ext = e; MV tm = m_transposed(MV::root(te)); for(L k = 0; k < tm.n(); ++k) nm.ids.push_back(sm.ids[std::size_t(tm.off[std::size_t(k)])]); A.m = nm; } break; }
#endif
			case 10: { begin("ctor(array_ref)"); Model sm = fresh(e); std::vector<Elem> buf; for(long id : sm.ids) buf.push_back(mk(id)); multi::array_ref<Elem, D> R(make_extensions<D>(e), buf.data()); A.a.reset();
				if(g.chance(1, 2)) { A.a.emplace(R); } else { A.a.emplace(std::as_const(R)); } A.m = sm; break; }
			case 11: { if(!A.a || A.m.n() == 0) break; begin("element-write"); L k = g.below(A.m.n()); long id = next_id++; A.a->elements()[k] = mk(id); A.m.ids[std::size_t(k)] = id; break; }
			case 12: { begin("ctor(init-list)"); A.a.reset(); long i0 = next_id; next_id += 6;
#if SA_D == 1
				A.a.emplace(std::initializer_list<Elem>{mk(i0), mk(i0 + 1), mk(i0 + 2)}); A.m.ext = {3}; A.m.ids = {i0, i0 + 1, i0 + 2}; A.m.unspec = false;
#elif SA_D == 2
				{ SA tmp = {{mk(i0), mk(i0 + 1), mk(i0 + 2)}, {mk(i0 + 3), mk(i0 + 4), mk(i0 + 5)}}; A.a.emplace(std::as_const(tmp)); A.m.ext = {2, 3}; A.m.ids = {i0, i0 + 1, i0 + 2, i0 + 3, i0 + 4, i0 + 5}; A.m.unspec = false; }
#else
				opk.clear();
#endif
				break; }
#if SA_D == 1
			case 13: { { begin("ctor(c-array)"); long i0 = next_id; next_id += 4; Elem carr[4] = {mk(i0), mk(i0 + 1), mk(i0 + 2), mk(i0 + 3)}; A.a.reset(); A.a.emplace(carr); A.m.ext = {4}; A.m.ids = {i0, i0 + 1, i0 + 2, i0 + 3}; A.m.unspec = false; } break; }
			case 14: { { if(!B.a || B.m.n() == 0 || B.m.unspec) break; begin("move-iterators(rvalue begin/end)"); std::vector<Elem> out(std::move(*B.a).begin(), std::move(*B.a).end()); had_move = true;
					if(L(out.size()) != B.m.n()) V("C04:static_array:move-iterators:count", "the rvalue range has another length"); else for(L k = 0; k < B.m.n(); ++k) if(id_of(out[std::size_t(k)]) != B.m.ids[std::size_t(k)]) { V("C04:static_array:move-iterators:values", "elements moved out of an rvalue static_array differ from its contents"); break; }
					if(!MOVED_FROM_KEEPS_VALUE) B.m.unspec = true; } break; }
#endif
			case 15: { if(!A.a) break; begin("destroy"); A.a.reset(); A.m = Model{}; break; }
			default: { if(!B.a) break; begin("array-from-static_array-and-back"); Arr tmp(std::as_const(*B.a)()); A.a.reset(); A.a.emplace(std::as_const(tmp)()); A.m = B.m; break; }
			}
			if(opk.empty()) continue;
			describe(" " + opk + "(" + std::to_string(a) + (kind >= 3 && kind <= 7 ? "<-" + std::to_string(b) : std::string()) + ")"); sig_mix(opk.c_str()); count("op:" + opk); ++done;
			check_all(pool, opk);
		}
		nontrivial(done >= 3 && had_move); op("destroy-all"); softcfg().opk = "static_array:destroy-all";
	}
	poll();
#if SA_T == 1
	if(!registry().live.empty()) V("C08:static_array:end:leaked-elements", std::to_string(registry().live.size()) + " element objects still alive after the last array died");
	count("elements_constructed", registry().cc + registry().mc + registry().dc + registry().vc); count("elements_destroyed", registry().dtor);
#endif
	if(!ledger().blocks.empty()) V("C08:static_array:end:leaked-blocks", std::to_string(ledger().blocks.size()) + " blocks outstanding after the last array died");
}

int main(int argc, char** argv) {
	return main_loop(argc, argv, [&](Case& c) {
		static bool init = false; if(!init) { init = true; auto& a = st().args;
			for(std::size_t i = 0; i < a.size(); ++i) { auto val = [&] { return i + 1 < a.size() ? a[i + 1] : std::string(); };
				if(a[i] == "--prop") PROP = val(); else if(a[i] == "--maxext") MAXEXT = std::atoi(val().c_str()); else if(a[i] == "--steps") MAXSTEPS = std::atoi(val().c_str()); } }
		install_soft_sink(); history(c);
	});
}
