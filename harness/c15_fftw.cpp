// C15 — FFTW adaptor vs. direct O(N^2) DFT along exactly the masked dimensions, on guarded roots with poisoned padding.
#define VK_MAIN
#include "../kit/viewprog.hpp"
#include <boost/multi/adaptors/fftw.hpp>
#include <boost/multi/adaptors/fft.hpp>
#include <boost/multi/array_ref.hpp>
#include <complex>
#include <sys/mman.h>
using namespace vk; namespace fftw = multi::fftw;
using C = std::complex<double>;

#ifndef C15_D
#define C15_D 3
#endif
constexpr int D = C15_D; constexpr L G = 64;
static char const* LK[] = {"contiguous", "rotated-root", "padded-block", "transposed-root", "strided-of-doubled", "unrotated-root"};
constexpr int NLK = 6;

struct Root { std::vector<C> s; C fill; std::vector<L> ext; C* base() { return s.data() + G; }
	void shape(std::vector<L> const& e, C f) { ext = e; fill = f; L n = 1; for(auto x : e) n *= x; s.assign(std::size_t(n + 2 * G), f); } };

// view of logical extents e with the given layout over root r; calls f(view, model-into-root)
template<class F, int DD = D> void with_layout(int kind, Root& r, std::vector<L> const& e, C fill, F&& f) {
	kind %= NLK;
	if(kind == 3 && DD < 2) kind = 0;
	switch(kind) {
	case 1: { std::vector<L> re{e.back()}; re.insert(re.end(), e.begin(), e.end() - 1); r.shape(re, fill); multi::array_ref<C, DD> R(make_extensions<DD>(re), r.base()); f(R.rotated(), m_rotated(MV::root(re))); return; }
	case 2: { auto pe = e; for(auto& x : pe) x += 2; r.shape(pe, fill); multi::array_ref<C, DD> R(make_extensions<DD>(pe), r.base()); std::vector<CallArg> as; std::array<multi::irange, std::size_t(DD)> rs; for(int d = 0; d < DD; ++d) { as.push_back(CallArg{1, 1, e[std::size_t(d)] + 1, d}); rs[std::size_t(d)] = multi::irange{1, e[std::size_t(d)] + 1}; }
		MV mv = m_call(MV::root(pe), as); std::apply([&](auto... q) { f(R(q...), mv); }, rs); return; }
	case 3: if constexpr(DD >= 2) { auto te = e; std::swap(te[0], te[1]); r.shape(te, fill); multi::array_ref<C, DD> R(make_extensions<DD>(te), r.base()); f(R.transposed(), m_transposed(MV::root(te))); return; } break;
	case 4: { auto se = e; se[0] *= 2; r.shape(se, fill); multi::array_ref<C, DD> R(make_extensions<DD>(se), r.base()); f(R.strided(2), m_strided(MV::root(se), 2)); return; }
	case 5: { std::vector<L> ue(e.begin() + 1, e.end()); ue.push_back(e[0]); r.shape(ue, fill); multi::array_ref<C, DD> R(make_extensions<DD>(ue), r.base()); f(R.unrotated(), m_unrotated(MV::root(ue))); return; }
	default: break;
	}
	r.shape(e, fill); multi::array_ref<C, DD> R(make_extensions<DD>(e), r.base()); f(R(), MV::root(e));
}

static std::vector<C> ref_dft(std::vector<C> x, std::vector<L> const& n, std::array<bool, std::size_t(D)> const& which, int sign) {
	MV m = MV::root(n); std::vector<L> ix, jx;
	for(int d = 0; d < D; ++d) if(which[std::size_t(d)]) { std::vector<C> y(x.size());
		for(L k = 0; k < m.n(); ++k) { m.unlin(k, ix); C s = 0; jx = ix; for(L t = 0; t < n[std::size_t(d)]; ++t) { jx[std::size_t(d)] = t; double ang = sign * 2.0 * M_PI * double(t * ix[std::size_t(d)]) / double(n[std::size_t(d)]); s += x[std::size_t(m.lin(jx))] * C(std::cos(ang), std::sin(ang)); } y[std::size_t(k)] = s; }
		x = y; }
	return x;
}

static C const POISON{1e30, 1e30}, OUTFILL{-7777, 0};
static int MAXEXT = 5;

#if C15_D == 2
// strides of 2^31 elements and more: FFTW's guru64 interface carries them as ptrdiff_t. The block is a lazily committed anonymous mapping; a few pages are touched.
static void huge_stride_probe(Rng& g) {
	L const cols = (L(1) << 31) + 8 * g.in(1, 3), n0 = 2, n1 = g.in(2, 4); std::size_t const total = std::size_t(n0) * std::size_t(cols) * sizeof(C); int const kind = int(g.below(3)); static char const* KN[] = {"huge-stride input", "huge-stride output", "huge-stride in-place"};
	std::array<bool, 2> which{g.chance(1, 2), g.chance(1, 2)}; int const sign = g.chance(1, 2) ? +1 : -1; std::string const ws = std::string(which[0] ? "T" : "F") + (which[1] ? "T" : "F");
	describe(std::string("huge-stride probe: ") + KN[kind] + " rows " + std::to_string(cols) + " elements apart, which=" + ws); sig_mix("huge-stride"); sig_mix(std::uint64_t(kind)); sig_mix(ws.c_str()); op("huge-stride:mmap");
	void* mp = mmap(nullptr, total, PROT_READ | PROT_WRITE, MAP_PRIVATE | MAP_ANONYMOUS | MAP_NORESERVE, -1, 0); if(mp == MAP_FAILED) { count("huge-stride-probe:mapping-refused(skipped)"); return; }
	{ C* const p = static_cast<C*>(mp); multi::array_ref<C, 2> R({n0, cols}, p); std::string const K = std::string("C15:huge-stride:") + KN[kind] + ":"; count(std::string("huge-stride-probe:") + KN[kind]);
		std::vector<L> const n{n0, n1}; std::vector<C> x(std::size_t(n0 * n1)); for(auto& v : x) v = C(double(g.below(7)) - 3, double(g.below(5)) - 2);
		auto y = ref_dft(x, n, which, sign); double scale = 1; for(auto const& v : x) scale = std::max(scale, std::abs(v)); double const tol = 1e-10 * double(n0 * n1) * scale; auto dir = sign == -1 ? fftw::forward : fftw::backward;
		auto guard = [&](L i, L j) -> C& { return p[i * cols + j]; };  // columns 0 and n1+1 of each row are guards around the view R({0,2},{1,1+n1})
		for(L i = 0; i < n0; ++i) { guard(i, 0) = POISON; guard(i, n1 + 1) = POISON; for(L j = 0; j < n1; ++j) guard(i, 1 + j) = x[std::size_t(i * n1 + j)]; }
		auto&& big = R({0, n0}, {1, 1 + n1}); multi::array<C, 2> small({n0, n1}, OUTFILL); op((std::string("huge-stride:") + KN[kind]).c_str());
		auto cmp = [&](auto const& got) { double err = 0; for(L i = 0; i < n0; ++i) for(L j = 0; j < n1; ++j) err = std::max(err, std::abs(got[i][j] - y[std::size_t(i * n1 + j)])); if(err > tol) violation(K + "wrong", "DFT over a view whose rows are " + std::to_string(cols) + " elements apart differs from the direct DFT by " + std::to_string(err)); };
		if(kind == 0) { fftw::dft(which, big, small, dir); cmp(small); for(L i = 0; i < n0; ++i) for(L j = 0; j < n1; ++j) if(!(guard(i, 1 + j) == x[std::size_t(i * n1 + j)])) { violation(K + "input-modified", "the input view was modified"); break; } }
		else if(kind == 1) { multi::array<C, 2> in({n0, n1}); for(L i = 0; i < n0; ++i) for(L j = 0; j < n1; ++j) { in[i][j] = x[std::size_t(i * n1 + j)]; guard(i, 1 + j) = OUTFILL; } fftw::dft(which, in, big, dir); cmp(big); }
		else { fftw::dft(which, big, dir); cmp(big); }
		for(L i = 0; i < n0; ++i) if(!(guard(i, 0) == POISON) || !(guard(i, n1 + 1) == POISON)) { violation(K + "outside-view-written", "an element next to the view was written"); break; }
		nontrivial(true); }
	munmap(mp, total);
}
#endif

#if C15_D <= 2
// the same geometry transformed several times in a row, in place and out of place, through the three-argument forms: every call is the direct DFT of its own input,
// whatever was transformed before (FFTW plans made for in-place use and for distinct arrays are not interchangeable for sizes like 30, 64, 100, 128)
static void repeat_geometry_probe(Rng& g) {
	static L const SZ[] = {30, 64, 100, 128}; L const n0 = SZ[g.below(4)]; std::vector<L> n{n0}; if(D == 2) n.push_back(g.in(2, 6)); L N = 1; for(auto q : n) N *= q;
	std::array<bool, std::size_t(D)> which{}; which[0] = true; if(D == 2) which[1] = g.chance(1, 2); int const sign = g.chance(1, 2) ? -1 : +1;
	describe("repeat-geometry probe n=" + join(n, "x") + " sign=" + std::to_string(sign)); sig_mix("repeat-geometry"); sig_mix(std::uint64_t(n0)); op("repeat-geometry"); count("repeat-geometry-probes"); std::string const K = "C15:repeat-geometry:";
	multi::array<C, D> a(make_extensions<D>(n)), b(make_extensions<D>(n)); double const tol = 1e-9 * double(N) * 8;
	for(int step = 0; step < 4; ++step) { bool const inplace = g.chance(1, 2); std::vector<C> x(static_cast<std::size_t>(N)); for(auto& v : x) v = C(double(g.below(7)) - 3, double(g.below(5)) - 2); auto const y = ref_dft(x, n, which, sign);
		for(L k = 0; k < N; ++k) { a.data_elements()[k] = x[std::size_t(k)]; b.data_elements()[k] = OUTFILL; }
		op(inplace ? "repeat-geometry:in-place(3-argument form)" : "repeat-geometry:out-of-place");
		if(inplace) { if(sign == -1) fftw::dft_forward(which, a, a); else fftw::dft_backward(which, a, a); } else { if(sign == -1) fftw::dft_forward(which, a, b); else fftw::dft_backward(which, a, b); }
		auto const& res = inplace ? a : b; double err = 0; for(L k = 0; k < N; ++k) err = std::max(err, std::abs(res.data_elements()[k] - y[std::size_t(k)]));
		if(err > tol) { violation(K + (inplace ? "in-place:wrong" : "out-of-place:wrong"), "call " + std::to_string(step) + " of a sequence over one geometry differs from the direct DFT by " + std::to_string(err)); break; }
		if(!inplace) for(L k = 0; k < N; ++k) if(!(a.data_elements()[k] == x[std::size_t(k)])) { violation(K + "input-modified", "an out-of-place transform in a sequence over one geometry modified its distinct input"); step = 4; break; } }
	nontrivial(true);
}
#endif

int main(int argc, char** argv) {
	return main_loop(argc, argv, [&](Case& c) {
		static bool init = false; if(!init) { init = true; auto& a = st().args; for(std::size_t i = 0; i + 1 < a.size(); ++i) if(a[i] == "--maxext") MAXEXT = std::atoi(a[i + 1].c_str()); }
#if C15_D == 2
		if(c.k % 40 == 11) { huge_stride_probe(c.rng); return; }
#endif
#if C15_D <= 2
		if(c.k % 40 == 23) { repeat_geometry_probe(c.rng); return; }
#endif
		Rng& g = c.rng; std::vector<L> n; for(int d = 0; d < D; ++d) n.push_back(g.in(1, d == D - 1 ? MAXEXT + 1 : MAXEXT)); if(g.chance(1, 5)) n[std::size_t(g.below(D))] = 1;
		std::array<bool, std::size_t(D)> which{}; std::string ws; for(int d = 0; d < D; ++d) { which[std::size_t(d)] = g.chance(1, 2); ws += which[std::size_t(d)] ? "T" : "F"; }
		int const sign = g.chance(1, 2) ? +1 : -1; int const li = int(g.below(NLK)), lo = int(g.below(NLK)); int const mode = int(g.below(6));  // 5: the lazy range fft::dft(which, in, dir) of adaptors/fft.hpp constructed into / assigned to an owning array; 0,1 out-of-place; 2 in-place overload; 3 forward then backward; 4 a plan made for one pair of arrays executed on another pair of the same layouts
		MV lm = MV::root(n); L const N = lm.n(); std::vector<C> x(static_cast<std::size_t>(N)); for(auto& v : x) v = C(double(g.below(7)) - 3, double(g.below(5)) - 2);
		L ntr = 1; for(int d = 0; d < D; ++d) if(which[std::size_t(d)]) ntr *= n[std::size_t(d)];
		std::string const lay = std::string(LK[li % NLK]) + "->" + (mode == 2 ? "in-place" : LK[lo % NLK]);
		describe("D=" + std::to_string(D) + " n=" + join(n, "x") + " which=" + ws + " sign=" + std::to_string(sign) + " " + lay + " mode=" + std::to_string(mode)); sig_mix(ws.c_str()); sig_mix(lay.c_str()); sig_mix(std::uint64_t(mode * 2 + (sign > 0))); for(auto q : n) sig_mix(std::uint64_t(std::min<L>(q, 3)));
		std::string const K = std::string("C15:") + (mode == 2 ? "in-place" : (mode == 3 ? "forward-backward" : (mode == 4 ? "plan-reuse" : (mode == 5 ? "lazy-range" : "out-of-place")))) + ":";
		auto y = ref_dft(x, n, which, sign); double scale = 1; for(auto const& v : x) scale = std::max(scale, std::abs(v)); double const tol = 1e-10 * double(N) * scale;
		Root RI, RO;
		with_layout(li, RI, n, POISON, [&](auto&& in, MV const& mi) {
			for(L k = 0; k < N; ++k) RI.base()[mi.off[std::size_t(k)]] = x[std::size_t(k)];
			auto const isnap = RI.s; auto dir = sign == -1 ? fftw::forward : fftw::backward;
			if(mode == 2) {  // in-place overload: output is the input view
				op(("in-place:" + lay).c_str()); fftw::dft(which, in, dir); count("mode:in-place");
				double err = 0; for(L k = 0; k < N; ++k) err = std::max(err, std::abs(RI.base()[mi.off[std::size_t(k)]] - y[std::size_t(k)])); if(err > tol) violation(K + "wrong", "in-place DFT differs from the direct DFT by " + std::to_string(err));
				for(L k = 0; k < N; ++k) RI.base()[mi.off[std::size_t(k)]] = POISON; for(auto const& e : RI.s) if(!(e == POISON)) violation(K + "outside-view-written", "an element of the root outside the view was written by the in-place DFT");
				nontrivial(N > 1 && ntr > 1); return; }
#if C15_D >= 2  // (the lazy range does not compile for 1-D inputs: its iterator dereferences to a 0-dimensional extensions object; a compile-time limit, not a run-time behaviour)
			if(mode == 5) {  // array constructed from / assigned the lazy range: extents of the input, elements of the direct DFT along exactly the masked dimensions, input untouched
				int const form = int(g.below(5)); static char const* FN[] = {"construct", "assign", "dft_forward/backward", "assign-to-same-extents", "dft_all/idft_all"}; op((std::string("lazy-range:") + FN[form] + ":" + LK[li % NLK]).c_str()); count("mode:lazy-range"); count(std::string("lazy-form:") + FN[form]);
				int const d = sign == -1 ? multi::fft::forward : multi::fft::backward; multi::array<C, D> out; std::vector<C> yall; std::vector<C> const* want = &y;
				switch(form) {
				case 0: { multi::array<C, D> o2 = multi::fft::dft(which, in, d); out = std::move(o2); break; }
				case 1: { out = multi::fft::dft(which, in, d); break; }
				case 2: { if(sign == -1) { multi::array<C, D> o2 = multi::fft::dft_forward(which, in); out = std::move(o2); } else { multi::array<C, D> o2 = multi::fft::dft_backward(which, std::move(in)); out = std::move(o2); } break; }
				case 3: { multi::array<C, D> o2(make_extensions<D>(n), OUTFILL); o2 = multi::fft::dft(which, in, d); out = std::move(o2); break; }
				default: { std::array<bool, std::size_t(D)> all{}; all.fill(true); yall = ref_dft(x, n, all, sign); want = &yall; if(sign == -1) { multi::array<C, D> o2 = multi::fft::dft_all(in); out = std::move(o2); } else { multi::array<C, D> o2 = multi::fft::idft_all(in); out = std::move(o2); } break; }  // every dimension, forward / backward
				}
				if(tuple_to_vec(out.sizes()) != n) violation(K + "extents", "the array built from the lazy range has extents " + join(tuple_to_vec(out.sizes()), "x") + ", the input has " + join(n, "x"));
				else { double err = 0; for(L k = 0; k < N; ++k) err = std::max(err, std::abs(out.data_elements()[k] - (*want)[std::size_t(k)])); if(err > tol) violation(K + "wrong", "the array built from the lazy range differs from the direct DFT along the masked dimensions by " + std::to_string(err)); }
				if(!(RI.s == isnap)) violation(K + "input-modified", "the input of a lazy range was modified");
				nontrivial(N > 1 && ntr > 1); return; }
#endif
			if(mode == 4) {  // plan(in, out) executed on (in2, out2): out2 must receive DFT(in2); in, in2 and the planned out stay untouched
				with_layout(lo, RO, n, OUTFILL, [&](auto&& out, MV const&) { Root RI2, RO2; auto const osnap = RO.s;
					with_layout(li, RI2, n, POISON, [&](auto&& in2, MV const& mi2) { std::vector<C> x2(x.size()); for(std::size_t q = 0; q < x.size(); ++q) x2[q] = x[x.size() - 1 - q] + C(1, -1); for(L k = 0; k < N; ++k) RI2.base()[mi2.off[std::size_t(k)]] = x2[std::size_t(k)]; auto const i2snap = RI2.s; auto y2 = ref_dft(x2, n, which, sign);
						with_layout(lo, RO2, n, OUTFILL, [&](auto&& out2, MV const& mo2) { op(("plan-reuse:" + lay).c_str()); count("mode:plan-reuse");
							fftw::plan pl{which, in.base(), in.layout(), out.base(), out.layout(), dir}; pl.execute(in2.base(), out2.base());
							double err = 0; for(L k = 0; k < N; ++k) err = std::max(err, std::abs(RO2.base()[mo2.off[std::size_t(k)]] - y2[std::size_t(k)])); if(err > tol * 2) violation(K + "wrong", "plan.execute(in2, out2): out2 differs from the DFT of in2 by " + std::to_string(err));
							if(!(RO.s == osnap)) violation(K + "planned-output-written", "executing the plan on other arrays wrote to the array it was planned with"); if(!(RI.s == isnap) || !(RI2.s == i2snap)) violation(K + "input-modified", "an input was modified");
							for(L k = 0; k < N; ++k) RO2.base()[mo2.off[std::size_t(k)]] = OUTFILL; for(auto const& e : RO2.s) if(!(e == OUTFILL)) { violation(K + "outside-view-written", "an element outside the output view was written"); break; } nontrivial(N > 1 && ntr > 1); }); }); });
				return; }
			with_layout(lo, RO, n, OUTFILL, [&](auto&& out, MV const& mo) {
				op(("out-of-place:" + lay).c_str()); count("mode:out-of-place");
				if(mode == 3) { fftw::dft_forward(which, in, out); } else { fftw::dft(which, in, out, dir); }
				if(!(RI.s == isnap)) violation(K + "input-modified", "a distinct input was modified");
				if(mode == 3) {  // forward followed by backward (into the input's layout twin) multiplies by the number of transformed points
					Root RB; with_layout(li, RB, n, OUTFILL, [&](auto&& back, MV const& mb) { fftw::dft_backward(which, out, back); double err = 0; for(L k = 0; k < N; ++k) err = std::max(err, std::abs(RB.base()[mb.off[std::size_t(k)]] - double(ntr) * x[std::size_t(k)])); if(err > tol * double(ntr)) violation(K + "not-N-times-input", "forward then backward is not N_transformed * input (error " + std::to_string(err) + ")");
						for(L k = 0; k < N; ++k) RB.base()[mb.off[std::size_t(k)]] = OUTFILL; for(auto const& e : RB.s) if(!(e == OUTFILL)) violation(K + "outside-view-written", "backward transform wrote outside its output view"); });
					count("mode:forward-backward"); }
				else { double err = 0; for(L k = 0; k < N; ++k) err = std::max(err, std::abs(RO.base()[mo.off[std::size_t(k)]] - y[std::size_t(k)])); if(err > tol) violation(K + "wrong", "DFT differs from the direct DFT along the masked dimensions by " + std::to_string(err)); }
				for(L k = 0; k < N; ++k) RO.base()[mo.off[std::size_t(k)]] = OUTFILL; for(auto const& e : RO.s) if(!(e == OUTFILL)) violation(K + "outside-view-written", "an element outside the output view (guard or padding) was written");
				nontrivial(N > 1 && ntr > 1);
			});
		});
		count("elements_compared", N);
	});
}
