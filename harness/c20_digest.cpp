// C20 (configuration independence) — a digest of every observable result of valid programs; the driver builds this TU with assertions on,
// with -DNDEBUG and with -DBOOST_MULTI_ASSERT_DISABLE and requires identical digests case by case.
#define VK_MAIN
#include "../kit/viewprog.hpp"
#include <algorithm>
#include <numeric>
using namespace vk;

static GenCfg cfg;
static std::uint64_t dg;
static void mix(std::uint64_t v) { dg ^= v + 0x9e3779b97f4a7c15ULL + (dg << 6) + (dg >> 2); dg *= 1099511628211ULL; }

struct DigVis {
	int const* base; Rng* g;
	template<class V> void at(V const& v, MV const& m, char const*) {
		constexpr int D = rank_of<V>; for(auto s : tuple_to_vec(v.sizes())) mix(std::uint64_t(s)); mix(std::uint64_t(v.num_elements())); mix(std::uint64_t(v.is_empty()));
		if(m.has_zero()) return;
		{ auto sa = v.strides().to_array(); for(auto s : sa) mix(std::uint64_t(s)); }
		std::vector<L> ix(std::size_t(D), 0); for(L k = 0; k < m.n(); ++k) { m.unlin(k, ix); mix(std::uint64_t(std::addressof(brk(v, ix)) - base)); }
		for(auto const& e : v.elements()) mix(std::uint64_t(e));
		mix(std::uint64_t(v.end() - v.begin()));
	}
	template<class V> void final(V&& v, MV const& m) {
		constexpr int D = rank_of<V>; if(m.has_zero()) return;
		multi::array<int, D> C(v); for(int e : C.elements()) mix(std::uint64_t(e));
		mix(std::uint64_t(C == v)); mix(std::uint64_t(C != v)); { multi::array<int, D> C2(C); C2.elements()[0] += 1; mix(std::uint64_t(C < C2)); mix(std::uint64_t(C2 <= C)); }
		// value-semantic operations on the copy: sort rows, reverse elements, reextent, assignment from a view, swap
		std::sort(C.begin(), C.end()); for(int e : C.elements()) mix(std::uint64_t(e));
		{ auto&& el = C.elements(); std::reverse(el.begin(), el.end()); } for(int e : C.elements()) mix(std::uint64_t(e));
		{ std::vector<L> ne = m.size; ne[0] += 1; if(D > 1) ne[std::size_t(D - 1)] = std::max<L>(1, ne[std::size_t(D - 1)] - 1); C.reextent(make_extensions<D>(ne), 77); for(int e : C.elements()) mix(std::uint64_t(e)); for(auto s : tuple_to_vec(C.sizes())) mix(std::uint64_t(s)); }
		{ multi::array<int, D> E(v.extensions(), 5); E() = v; multi::array<int, D> F = E; F.elements()[0] = 9; swap(E, F); mix(std::uint64_t(E.elements()[0])); mix(std::uint64_t(std::accumulate(F.elements().begin(), F.elements().end(), 0L))); }
		{ auto it = v.begin(); it += g->below(m.size[0] + 1); mix(std::uint64_t(it - v.begin())); auto jt = v.elements().end(); jt -= g->below(m.n() + 1); mix(std::uint64_t(v.elements().end() - jt)); if(jt != v.elements().end()) mix(std::uint64_t(*jt)); }
		nontrivial();
	}
};

// observable static facts and their run-time consequences must not depend on NDEBUG / BOOST_MULTI_ASSERT_DISABLE either: exception specifications of the
// special members (they decide whether std::vector moves or copies arrays when it grows), triviality, and the growth behaviour itself
template<int D> void static_facts() {
	using A = multi::array<int, D>; using S = multi::static_array<int, D>; using R = multi::array_ref<int, D>; using V = decltype(std::declval<A&>()()); using It = typename A::iterator; using El = decltype(std::declval<A&>().elements());
	auto f = [&](bool b) { mix(std::uint64_t(b) + 2); };
	f(std::is_nothrow_move_constructible_v<A>); f(std::is_nothrow_move_assignable_v<A>); f(std::is_nothrow_default_constructible_v<A>); f(std::is_nothrow_destructible_v<A>); f(std::is_nothrow_swappable_v<A>); f(std::is_nothrow_copy_constructible_v<A>);
	f(std::is_nothrow_move_constructible_v<S>); f(std::is_nothrow_move_constructible_v<V>); f(std::is_nothrow_move_constructible_v<It>); f(std::is_nothrow_copy_constructible_v<It>); f(std::is_nothrow_move_constructible_v<El>); f(std::is_nothrow_move_constructible_v<R>);
	f(std::is_trivially_copyable_v<It>); f(std::is_trivially_destructible_v<V>); f(noexcept(std::declval<A&>().clear())); f(noexcept(std::declval<A&>().swap(std::declval<A&>()))); f(noexcept(std::declval<A const&>().size())); f(noexcept(std::declval<A const&>().num_elements()));
	std::vector<A> vec; std::vector<L> e(static_cast<std::size_t>(D), 2); vec.emplace_back(make_extensions<D>(e), 3); auto const* p0 = vec[0].data_elements(); for(int i = 0; i < 9; ++i) vec.emplace_back(make_extensions<D>(e), i); f(vec[0].data_elements() == p0);  // grown vector: arrays moved (block kept) or copied
}

template<int D> void one(Case& c, Prog const& p) {
	if(c.k % 64 == 0) static_facts<D>();
	auto exts = make_extensions<D>(p.root); MV m = MV::root(p.root); sig_mix(std::uint64_t(D)); for(auto s : p.root) sig_mix(std::uint64_t(s));
	multi::array<int, D> A(exts); { int q = 0; for(auto& e : A.elements()) e = (q++ * 7) % 11; }
	DigVis vis{A.data_elements(), &c.rng}; Interp<DigVis> I{vis, p}; I.run(A(), m, 0, "root");
}

int main(int argc, char** argv) {
	return main_loop(argc, argv, [&](Case& c) {
		static bool init = false; if(!init) { init = true; auto& a = st().args; for(std::size_t i = 0; i + 1 < a.size(); ++i) { if(a[i] == "--maxext") cfg.max_ext = std::atoi(a[i + 1].c_str()); if(a[i] == "--maxops") cfg.max_ops = std::atoi(a[i + 1].c_str()); } }
		dg = 1469598103934665603ULL; Prog p = gen_prog(c.rng, cfg);
		switch(p.root.size()) { case 1: one<1>(c, p); break; case 2: one<2>(c, p); break; case 3: one<3>(c, p); break; default: one<4>(c, p); break; }
		char b[64]; std::snprintf(b, sizeof b, "G %ld %016llx", c.k, static_cast<unsigned long long>(dg)); emit(b);
	});
}
