// C17 — Boost.Serialization round trips of arrays (any prior state of the loading array) and of views (into views of equal extents).
//   -DC17_T: 0 int, 1 double, 2 std::string, 3 multi::array<int,1> (nested)      -DC17_D: rank 1..4
#define VK_MAIN
#include <boost/archive/text_oarchive.hpp>
#include <boost/archive/text_iarchive.hpp>
#include <boost/archive/binary_oarchive.hpp>
#include <boost/archive/binary_iarchive.hpp>
#include <boost/archive/xml_oarchive.hpp>
#include <boost/archive/xml_iarchive.hpp>
#include <boost/serialization/nvp.hpp>
#include <boost/serialization/string.hpp>
#include <boost/serialization/tracking.hpp>
#include "../kit/viewprog.hpp"
#include <boost/multi/array_ref.hpp>
#include <sstream>
#include <regex>
using namespace vk;

#ifndef C17_T
#define C17_T 0
#endif
#ifndef C17_D
#define C17_D 2
#endif
constexpr int D = C17_D;
#if C17_T == 0
using T = int; static T mk(long id) { return int(id); } static char const* TN = "int";
#elif C17_T == 1
using T = double; static T mk(long id) { return double(id) + 0.125; } static char const* TN = "double";
#elif C17_T == 2
using T = std::string; static T mk(long id) { return std::string(id % 3 == 0 ? 20 : 2, 's') + std::to_string(id) + (id % 5 == 0 ? " with space <&>" : ""); } static char const* TN = "string";
#elif C17_T == 4
// a class type with object tracking switched on (as for any class that is also archived through a pointer somewhere in the program): the archive identifies such objects by ADDRESS
struct Tracked { int v = 0; template<class Ar> void serialize(Ar& ar, unsigned /*version*/) { ar & boost::serialization::make_nvp("v", v); } friend bool operator==(Tracked const& a, Tracked const& b) { return a.v == b.v; } friend bool operator!=(Tracked const& a, Tracked const& b) { return a.v != b.v; } };
BOOST_CLASS_TRACKING(Tracked, boost::serialization::track_always)
using T = Tracked; static T mk(long id) { Tracked t; t.v = int(id); return t; } static char const* TN = "tracked-class";
#else
using T = multi::array<int, 1>; static T mk(long id) { T a(multi::extensions_t<1>{id % 4}); for(L i = 0; i < id % 4; ++i) a[i] = int(id * 10 + i); return a; } static char const* TN = "array<int,1>";
#endif
using Arr = multi::array<T, D>;
static char const* AK[] = {"text", "binary", "xml"};

template<class X> std::string save(int ak, X const& x) {
	std::ostringstream os;
	if(ak == 0) { boost::archive::text_oarchive oa(os); oa << boost::serialization::make_nvp("arr", x); } else if(ak == 1) { boost::archive::binary_oarchive oa(os); oa << boost::serialization::make_nvp("arr", x); } else { boost::archive::xml_oarchive oa(os); oa << boost::serialization::make_nvp("arr", x); }
	return os.str();
}
template<class X> void load(int ak, std::string const& s, X&& x) {
	std::istringstream is(s);
	if(ak == 0) { boost::archive::text_iarchive ia(is); ia >> boost::serialization::make_nvp("arr", x); } else if(ak == 1) { boost::archive::binary_iarchive ia(is); ia >> boost::serialization::make_nvp("arr", x); } else { boost::archive::xml_iarchive ia(is); ia >> boost::serialization::make_nvp("arr", x); }
}
static std::vector<L> rnd_ext(Rng& g, int maxe) { std::vector<L> e; for(int d = 0; d < D; ++d) e.push_back(g.in(1, maxe)); if(g.chance(1, 10)) for(auto& x : e) x = 0; else if(D > 1 && g.chance(1, 12)) e[std::size_t(g.below(D))] = 0; return e; }
static bool same_elems(Arr const& a, Arr const& b) { if(a.num_elements() != b.num_elements()) return false; for(L k = 0; k < a.num_elements(); ++k) if(!(a.data_elements()[k] == b.data_elements()[k])) return false; return true; }
static int MAXE = 4;

int main(int argc, char** argv) {
	return main_loop(argc, argv, [&](Case& c) {
		static bool init = false; if(!init) { init = true; auto& a = st().args; for(std::size_t i = 0; i + 1 < a.size(); ++i) if(a[i] == "--maxext") MAXE = std::atoi(a[i + 1].c_str()); }
		Rng& g = c.rng; int const ak = int(g.below(3)); auto e = rnd_ext(g, MAXE); long id = 1;
		std::vector<L> bs(std::size_t(D), 0); bool const rebased = (c.k % 3 != 2) && g.chance(1, 3); if(rebased) for(auto& x : bs) x = g.in(-2, 2); if(rebased && g.chance(1, 5)) { static L const FAR[] = {3000000000L, -5000000000L, 2147483646L, -2147483650L}; bs[std::size_t(g.below(D))] = FAR[g.below(4)] + g.in(0, 3); count("first-indices-beyond-32-bits"); }  // index ranges that do not start at 0 are part of the extents
		Arr A(make_extensions<D>(bs, e)); for(L k = 0; k < A.num_elements(); ++k) A.data_elements()[k] = mk(id++);
		if(c.k % 3 != 2) {  // ---- whole-array round trip into an array in some prior state
			int const prior = int(g.below(6)); static char const* PN[] = {"empty", "same-extents", "other-extents", "larger", "moved-from", "same-count-other-extents"};
			std::string const K = std::string("C17:array:") + AK[ak] + ":" + PN[prior] + ":"; describe(std::string("array<") + TN + "," + std::to_string(D) + "> " + AK[ak] + " extents=" + join(e, "x") + (rebased ? " first-indices=" + join(bs) : std::string()) + " prior=" + PN[prior]); if(rebased) count("rebased-arrays"); sig_mix(K.c_str()); sig_mix(std::uint64_t(A.num_elements() == 0)); nontrivial(A.num_elements() >= 2);
			op((std::string("save:") + AK[ak]).c_str()); std::string const s = save(ak, A);
			Arr B; std::vector<L> pe = e;
			switch(prior) { case 1: B = Arr(make_extensions<D>(e)); break; case 2: for(auto& x : pe) x = g.in(1, MAXE); B = Arr(make_extensions<D>(pe)); break; case 3: for(auto& x : pe) x += 2; B = Arr(make_extensions<D>(pe)); break;
				case 4: { Arr tmp(make_extensions<D>(e)); B = Arr(make_extensions<D>(e)); tmp = std::move(B); break; } case 5: std::reverse(pe.begin(), pe.end()); B = Arr(make_extensions<D>(pe)); break; default: break; }
			for(L k = 0; k < B.num_elements(); ++k) B.data_elements()[k] = mk(1000 + k);
			op((std::string("load:") + AK[ak] + ":" + PN[prior]).c_str()); load(ak, s, B);
			if(!(B.extensions() == A.extensions())) violation(K + "extents", "loaded array has extents " + join(tuple_to_vec(B.sizes()), "x") + ", saved " + join(tuple_to_vec(A.sizes()), "x"));
			if(!same_elems(A, B)) violation(K + "elements", "loaded array differs from the saved one element-wise"); if(!(A == B)) violation(K + "not-equal", "loaded array != saved array");
			// saving again gives the same archive
			if(save(ak, B) != s) violation(K + "archive-not-stable", "re-saving the loaded array gives a different archive");
#if C17_T == 0
			if(ak == 2) { std::regex re("<(?:elem|item)>(-?\\d+)</(?:elem|item)>"); auto b = std::sregex_iterator(s.begin(), s.end(), re); L cnt = 0; bool order = true; for(auto it = b; it != std::sregex_iterator(); ++it, ++cnt) order &= (std::stol((*it)[1]) == cnt + 1); if(cnt != A.num_elements() || !order) violation(K + "xml-contents", "the XML archive does not hold exactly the elements in canonical order (" + std::to_string(cnt) + " items)"); }
#endif
			if(A.num_elements() > 0) {  // array_ref over guarded storage with the same (possibly re-based) extensions: save through one ref, load through another
				L const N = A.num_elements(); std::vector<T> sb(std::size_t(N + 8), mk(9001)), lb(std::size_t(N + 8), mk(9002)); for(L k = 0; k < N; ++k) sb[std::size_t(4 + k)] = A.data_elements()[k];
				multi::array_ref<T, D> SR(make_extensions<D>(bs, e), sb.data() + 4), LR(make_extensions<D>(bs, e), lb.data() + 4);
				op((std::string("save-array_ref:") + AK[ak]).c_str()); std::string const s3 = save(ak, SR); op((std::string("load-array_ref:") + AK[ak]).c_str()); load(ak, s3, LR);
				for(L k = 0; k < N; ++k) if(!(lb[std::size_t(4 + k)] == A.data_elements()[k])) { violation(K + "array_ref:elements", "array_ref round trip: element " + std::to_string(k) + " differs"); break; }
				for(L k = 0; k < 4; ++k) if(!(lb[std::size_t(k)] == mk(9002)) || !(lb[std::size_t(4 + N + k)] == mk(9002))) { violation(K + "array_ref:outside-written", "loading into an array_ref wrote outside the referenced block"); break; }
				count("array_ref-roundtrip"); }
			count(std::string("roundtrip:") + AK[ak]);
		} else {  // ---- view round trip: save a view, load into a view of equal extents over a guarded root
			if(A.num_elements() == 0) { describe("view of empty (skipped)"); return; }
			int const vk_ = int(g.below(5)); static char const* VN[] = {"whole()", "rotated", "block", "strided", "transposed"};
			std::string const K = std::string("C17:view:") + AK[ak] + ":" + VN[vk_] + ":"; describe(std::string("view of array<") + TN + "," + std::to_string(D) + "> " + AK[ak] + " extents=" + join(e, "x") + " view=" + VN[vk_]); sig_mix(K.c_str()); nontrivial(A.num_elements() >= 2);
			MV root = MV::root(e); MV vm; std::string s;
			bool const rbv = D >= 2 && g.chance(1, 3); L const rb0 = g.in(-2, 3), rb1 = g.in(1, 3); if(rbv) { count("re-based-views"); describe(" (view re-based)"); }  // the same views with first indices other than 0 in the first two dimensions: the same elements in the same order
			auto with_v = [&](auto& X, auto&& f0) { auto f = [&](auto&& vv) { if constexpr(D >= 2) { if(rbv) { f0(std::forward<decltype(vv)>(vv).reindexed(rb0, rb1)); return; } } f0(std::forward<decltype(vv)>(vv)); }; switch(vk_) { case 1: vm = m_rotated(root); f(X.rotated()); break; case 2: { L b1 = e[0] >= 2 ? 1 : 0; vm = m_sliced(root, b1, e[0]); f(X.sliced(b1, e[0])); break; } case 3: if constexpr(!std::is_const_v<std::remove_reference_t<decltype(X)>>) { if(e[0] % 2 == 0) { vm = m_strided(root, 2); f(X.strided(2)); break; } } vm = root; f(X()); break;  /* (strided() of a const D>1 array does not compile on the pinned tree) */ case 4: if constexpr(D >= 2) { vm = m_transposed(root); f(X.transposed()); break; } [[fallthrough]]; default: vm = root; f(X()); break; } };
			bool const ro_src = vk_ != 3 && g.chance(1, 2); if(ro_src) { count("view-saved-through-read-only-view-type"); describe(" (read-only source view)"); }  // the view type of a const array has its own serialize()
			op((std::string("save-view:") + AK[ak]).c_str()); bool saved = false;
#if C17_D == 1  // a 1-D view with a first index other than 0 (reindexed(i) of a 1-D view is a read-only view): it saves its own elements all the same
			if(!ro_src && g.chance(1, 3)) { L const r1 = g.in(-3, 4) == 0 ? 2 : g.in(-3, 4); count("re-based-1-D-read-only-source"); describe(" (1-D source re-based)"); with_v(A, [&](auto&& v) { s = save(ak, v.reindexed(r1 == 0 ? 1 : r1)); }); saved = true; }
#endif
			if(!saved) { if(ro_src) with_v(std::as_const(A), [&](auto&& v) { s = save(ak, v); }); else with_v(A, [&](auto&& v) { s = save(ak, v); }); }
			Arr W(make_extensions<D>(e)); for(L k = 0; k < W.num_elements(); ++k) W.data_elements()[k] = mk(5000 + k); Arr const W0 = W;
			op((std::string("load-view:") + AK[ak]).c_str()); with_v(W, [&](auto&& w) { load(ak, s, w); });
			std::vector<char> in(std::size_t(W.num_elements()), 0); for(L k = 0; k < vm.n(); ++k) { L o = vm.off[std::size_t(k)]; in[std::size_t(o)] = 1; if(!(W.data_elements()[o] == A.data_elements()[o])) violation(K + "elements", "k-th element of the loaded view differs from the k-th element of the saved view, k=" + std::to_string(k)); }
			for(L o = 0; o < W.num_elements(); ++o) if(!in[std::size_t(o)] && !(W.data_elements()[o] == W0.data_elements()[o])) violation(K + "outside-view-modified", "loading into a view modified an element outside it");
			// the archive of a view is layout-independent: it loads into a contiguous view of equal extents element by element in canonical order, and vice versa
			{ Arr Z(make_extensions<D>(vm.size)); for(L k = 0; k < Z.num_elements(); ++k) Z.data_elements()[k] = mk(7000 + k);
				op((std::string("load-view-into-contiguous:") + AK[ak]).c_str()); load(ak, s, Z());
				for(L k = 0; k < vm.n(); ++k) if(!(Z.data_elements()[k] == A.data_elements()[vm.off[std::size_t(k)]])) { violation(K + "cross-layout:elements", "k-th element (canonical order) of a contiguous view loaded from the archive of a " + std::string(VN[vk_]) + " view differs from the k-th element of the saved view, k=" + std::to_string(k)); break; }
				for(L k = 0; k < Z.num_elements(); ++k) Z.data_elements()[k] = mk(8000 + k); op((std::string("save-contiguous-view:") + AK[ak]).c_str()); std::string const s2 = save(ak, Z());
				Arr W2 = W0; op((std::string("load-contiguous-archive-into-view:") + AK[ak]).c_str()); with_v(W2, [&](auto&& w) { load(ak, s2, w); });
				for(L k = 0; k < vm.n(); ++k) if(!(W2.data_elements()[vm.off[std::size_t(k)]] == Z.data_elements()[k])) { violation(K + "cross-layout:elements-into-view", "k-th element of a " + std::string(VN[vk_]) + " view loaded from the archive of a contiguous view differs, k=" + std::to_string(k)); break; }
				for(L o = 0; o < W2.num_elements(); ++o) if(!in[std::size_t(o)] && !(W2.data_elements()[o] == W0.data_elements()[o])) { violation(K + "cross-layout:outside-view-modified", "loading into a view modified an element outside it"); break; } }
			count(std::string("view-roundtrip:") + AK[ak]);
		}
	});
}
