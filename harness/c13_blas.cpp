// C13 — BLAS adaptor vs. naive reference on exact small-integer data, guarded buffers with poisoned padding.
// The case space (operation x operand layouts x sizes 0..3 x scalars) is enumerated exhaustively: case k is a mixed-radix index.
//   -DC13_T: 0 double, 1 complex<double>, 2 float, 3 complex<float>       -DC13_G: 1 level-1 + gemv, 2 gemm, 3 herk/syrk/trsm
#define VK_MAIN
#include "../kit/vk.hpp"
#include <boost/multi/adaptors/blas.hpp>
#include <boost/multi/array.hpp>
#include <complex>
using namespace vk; namespace multi = boost::multi; namespace blas = multi::blas;

#ifndef C13_T
#define C13_T 0
#endif
#ifndef C13_G
#define C13_G 2
#endif
#if C13_T == 0
using T = double; constexpr bool CPLX = false; static char const* TN = "d";
#elif C13_T == 1
using T = std::complex<double>; constexpr bool CPLX = true; static char const* TN = "z";
#elif C13_T == 2
using T = float; constexpr bool CPLX = false; static char const* TN = "s";
#else
using T = std::complex<float>; constexpr bool CPLX = true; static char const* TN = "c";
#endif
using R = decltype(std::abs(T{}));
constexpr L G = 64;

template<class X = T> X val(L i, L j, int salt) { L v = (i * 3 + j * 5 + salt * 7) % 7 - 3; if constexpr(!std::is_arithmetic_v<X>) { L w = (i * 2 + j + salt) % 5 - 2; return X(R(v), R(w)); } else { return X(R(v)); } }
template<class X> X conj_(X x) { if constexpr(!std::is_arithmetic_v<X>) { return std::conj(x); } else { return x; } }

template<class X> struct Buf { std::vector<X> s; L rows = 0, cols = 0; X fillv{};
	void shape(L r, L c, X fill) { rows = r; cols = c; fillv = fill; s.assign(std::size_t(r * c + 2 * G), fill); }
	auto ref() { return multi::array_ref<X, 2>({rows, cols}, s.data() + G); }
	long touched(std::vector<X> const& snap) const { long c = 0; for(std::size_t i = 0; i < s.size(); ++i) c += !(s[i] == snap[i]); return c; } };

static char const* MK[] = {"Nc", "Np", "Tc", "Tp"};  // row-major contiguous / padded sub-block, transposed (column-major) contiguous / padded
template<class B> auto mkm(B& Rb, int kind, L m, L n, T fill) {
	if((m == 0 || n == 0) && kind % 2 == 0) kind += 1;  // an array_ref with a zero extent collapses to 0x0: empty operands are always cut out of a non-empty padded root
	switch(kind) {
	case 0: Rb.shape(m, n, fill); return Rb.ref()({0, m}, {0, n});
	case 1: Rb.shape(m + 2, n + 3, fill); return Rb.ref()({1, m + 1}, {2, n + 2});
	case 2: Rb.shape(n, m, fill); return Rb.ref()({0, n}, {0, m}).transposed();
	default: Rb.shape(n + 3, m + 2, fill); return Rb.ref()({2, n + 2}, {1, m + 1}).transposed();
	} }
static char const* VK_[] = {"unit", "strided2", "column", "row-of-padded"};
template<class B> auto mkv(B& Rb, int kind, L n, T fill) {
	switch(kind) {
	case 0: Rb.shape(1, n + 1, fill); return Rb.ref()[0].sliced(0, n);
	case 1: Rb.shape(1, 2 * n + 2, fill); return Rb.ref()[0].sliced(0, 2 * n).strided(2);
	case 2: Rb.shape(n + 1, 3, fill); return Rb.ref().transposed()[1].sliced(0, n);
	default: Rb.shape(3, n + 4, fill); return Rb.ref()[1].sliced(2, n + 2);
	} }
static std::string szc(L x) { return x == 0 ? "0" : (x == 1 ? "1" : "n"); }

static T const POISON = T(R(1e30)); static T const OUTFILL = T(R(-7777));
static bool eq(T a, T b) { return a == b; }

struct Outcome { std::string sym; std::string detail; };
// run f() and classify; `check` computes correctness and clean-ness after a successful call
template<class F, class Chk> Outcome classify(F&& f, Chk&& chk) {
	st().assert_throws = true;
	try { f(); } catch(assertion_failure const& a) { st().assert_throws = false; count("rejected:assertion"); return {"rejected", "assertion " + a.site}; } catch(std::exception const& e) { st().assert_throws = false; count(std::string("rejected:exception")); return {"rejected", e.what()}; }
	st().assert_throws = false; return chk();
}
static void report(std::string const& key, Outcome const& o) { if(o.sym == "ok") { count("computed-ok"); } else if(o.sym == "rejected") { count("rejected"); } else { violation(key + ":" + o.sym, o.detail, false); } }

// ---------------------------------------------------------------------------------------------------------------- gemm
#if C13_G == 2
static char const* FORM[] = {"gemm(a,A,B,b,C)", "C=gemm(a,A,B)", "C+=gemm(a,A,B)", "+gemm(a,A,B)"};
static char const* OPN[] = {"N", "J", "H"};  // plain, conjugated, hermitian (complex only)
static long ncases() { return 4L * 4 * 4 * 4 * 4 * 4 * 3 * 4 * (CPLX ? 9 : 1); }
template<class A, class B, class C> void gemm_case(A&& a, B&& b, C&& c, int form, T alpha, T beta, std::string const& key, std::function<Outcome()> const& chk) {
	Outcome o = classify([&] {
		switch(form) {
		case 0: blas::gemm(alpha, a, b, beta, c); break;
		case 1: c = blas::gemm(alpha, a, b); break;
		case 2: c += blas::gemm(alpha, a, b); break;
		default: { auto r = +blas::gemm(alpha, a, b); c = r; break; }
		} }, chk);
	report(key, o);
}
static void one(Case& cs) {
	L k = cs.k; auto take = [&](L n) { L r = k % n; k /= n; return r; };
	int const ka = int(take(4)), kb = int(take(4)), kc = int(take(4)); L const m = take(4), n = take(4), kk = take(4); int const sc = int(take(3)), form = int(take(4)); int const opa = CPLX ? int(take(3)) : 0, opb = CPLX ? int(take(3)) : 0;
	static T const AL[] = {T(R(1)), T(R(2)), T(R(-1))}; static T const BE[] = {T(R(0)), T(R(1)), T(R(2))};
	T const alpha = AL[sc], beta = form == 0 ? BE[sc] : (form == 2 ? T(R(1)) : T(R(0)));
	// logical A is m x kk, B is kk x n, C is m x n; op(A) = A, conj(A) or A^H (then the stored operand is kk x m)
	Buf<T> RA, RB, RC; bool const ha = opa == 2, hb = opb == 2;
	auto&& As = mkm(RA, ka, ha ? kk : m, ha ? m : kk, POISON); auto&& Bs = mkm(RB, kb, hb ? n : kk, hb ? kk : n, POISON); auto&& Cv = mkm(RC, kc, m, n, OUTFILL);
	for(L i = 0; i < As.size(); ++i) for(L j = 0; j < (As.size() ? As[0].size() : 0); ++j) As[i][j] = val(i, j, 1);
	for(L i = 0; i < Bs.size(); ++i) for(L j = 0; j < (Bs.size() ? Bs[0].size() : 0); ++j) Bs[i][j] = val(i, j, 2);
	for(L i = 0; i < m; ++i) for(L j = 0; j < n; ++j) Cv[i][j] = val(i, j, 3);
	auto la = [&](L i, L p) { return opa == 0 ? T(As[i][p]) : (opa == 1 ? conj_(As[i][p]) : conj_(As[p][i])); }; auto lb = [&](L p, L j) { return opb == 0 ? T(Bs[p][j]) : (opb == 1 ? conj_(Bs[p][j]) : conj_(Bs[j][p])); };
	std::vector<T> ref(static_cast<std::size_t>(m * n), T{}); for(L i = 0; i < m; ++i) for(L j = 0; j < n; ++j) { T s{}; for(L p = 0; p < kk; ++p) s += la(i, p) * lb(p, j); ref[std::size_t(i * n + j)] = alpha * s + beta * T(Cv[i][j]); }
	auto const sa = RA.s, sb = RB.s;
	std::string const lay = std::string(OPN[opa]) + MK[ka] + "*" + OPN[opb] + MK[kb] + "->" + MK[kc];
	std::string const szs = szc(m) + szc(n) + szc(kk); bool const degenerate = (m <= 1 || n <= 1 || kk <= 1);
	std::string const key = std::string("C13:gemm:") + TN + ":" + lay + ":" + szs; (void)degenerate;
	describe(std::string("gemm ") + TN + " " + FORM[form] + " " + lay + " m,n,k=" + std::to_string(m) + "," + std::to_string(n) + "," + std::to_string(kk) + " alpha=" + std::to_string(std::real(alpha)) + " beta=" + std::to_string(std::real(beta)));
	sig_mix(lay.c_str()); sig_mix(szs.c_str()); sig_mix(std::uint64_t(form)); sig_mix(std::uint64_t(sc)); nontrivial(m * n > 0);
	op((std::string("gemm:") + TN + ":" + lay + ":" + szs).c_str());
	auto chk = [&]() -> Outcome {
		bool ok = true; for(L i = 0; i < m; ++i) for(L j = 0; j < n; ++j) ok &= eq(Cv[i][j], ref[std::size_t(i * n + j)]);
		for(L i = 0; i < m; ++i) for(L j = 0; j < n; ++j) Cv[i][j] = OUTFILL; long stray = 0; for(auto const& e : RC.s) stray += !(e == OUTFILL);
		bool inmod = !(RA.s == sa) || !(RB.s == sb);
		if(stray) return {"oob-write", std::to_string(stray) + " element(s) outside the output view were written (" + FORM[form] + ", sizes " + szs + ")"};
		if(inmod) return {"input-modified", "an input operand was modified"};
		if(!ok) return {"wrong", std::string("result differs from the mathematical definition (") + FORM[form] + ", m,n,k=" + std::to_string(m) + "," + std::to_string(n) + "," + std::to_string(kk) + ")"};
		return {"ok", ""}; };
	auto with_b = [&](auto&& a) { if constexpr(CPLX) { if(opb == 1) gemm_case(a, blas::J(Bs), Cv, form, alpha, beta, key, chk); else if(opb == 2) gemm_case(a, blas::H(Bs), Cv, form, alpha, beta, key, chk); else gemm_case(a, Bs, Cv, form, alpha, beta, key, chk); } else { gemm_case(a, Bs, Cv, form, alpha, beta, key, chk); } };
	if constexpr(CPLX) { if(opa == 1) with_b(blas::J(As)); else if(opa == 2) with_b(blas::H(As)); else with_b(As); } else { with_b(As); }
}
#endif

// ---------------------------------------------------------------------------------------------------------------- level 1 + gemv
#if C13_G == 1
static long ncases() { return 5L * 4 * 4 + 4L * 4 * 4 * 4 * 4 * 3 * 2 * (CPLX ? 3 : 1); }
static void one(Case& cs) {
	L k = cs.k; auto take = [&](L n) { L r = k % n; k /= n; return r; };
	if(cs.k < 5L * 4 * 4) {  // level 1: n in 0..4, x kind, y kind; all operations on the same operands
		L const n = take(5); int const kx = int(take(4)), ky = int(take(4));
		std::string const lay = std::string(VK_[kx]) + "," + VK_[ky]; std::string const szs = szc(n);
		describe(std::string("level1 ") + TN + " x=" + VK_[kx] + " y=" + VK_[ky] + " n=" + std::to_string(n)); sig_mix(lay.c_str()); sig_mix(szs.c_str()); nontrivial(n > 0);
		auto run = [&](char const* opn, auto&& body) {
			Buf<T> RX, RY; auto&& x = mkv(RX, kx, n, POISON); auto&& y = mkv(RY, ky, n, OUTFILL); for(L i = 0; i < n; ++i) { x[i] = val(i, 0, 1); y[i] = val(i, 1, 2); }
			std::vector<T> xv(x.begin(), x.end()), yv(y.begin(), y.end()); auto sx = RX.s, sy = RY.s;
			op((std::string(opn) + ":" + lay + ":" + szs).c_str()); std::string key = std::string("C13:") + opn + ":" + TN + ":" + lay + ":" + (n <= 1 ? "degenerate" : "general");
			Outcome o = classify([&] { body(x, y, xv, yv, 0); }, [&]() -> Outcome { return body(x, y, xv, yv, 1) ? Outcome{"ok", ""} : Outcome{"wrong", std::string(opn) + " result differs from its definition, n=" + std::to_string(n)}; });
			if(o.sym == "ok") { // cleanliness: restore viewed elements, then nothing else may differ
				for(L i = 0; i < n; ++i) { x[i] = xv[std::size_t(i)]; y[i] = yv[std::size_t(i)]; } if(RX.touched(sx) || RY.touched(sy)) o = {"oob-write", "elements outside the vector views were modified"}; }
			report(key, o); count(std::string("op:") + opn); };
		static T res; static R rres; static L ires;
		run("axpy", [&](auto& x, auto& y, auto& xv, auto& yv, int ph) { if(!ph) { blas::axpy(T(R(2)), x, y); return true; } bool ok = true; for(L i = 0; i < n; ++i) ok &= eq(y[i], T(R(2)) * xv[std::size_t(i)] + yv[std::size_t(i)]) && eq(x[i], xv[std::size_t(i)]); return ok; });
		run("scal", [&](auto& x, auto& y, auto& xv, auto& yv, int ph) { if(!ph) { blas::scal(T(R(3)), y); return true; } bool ok = true; for(L i = 0; i < n; ++i) ok &= eq(y[i], T(R(3)) * yv[std::size_t(i)]) && eq(x[i], xv[std::size_t(i)]); return ok; });
		run("copy", [&](auto& x, auto& y, auto& xv, auto&, int ph) { if(!ph) { blas::copy(x, y); return true; } bool ok = true; for(L i = 0; i < n; ++i) ok &= eq(y[i], xv[std::size_t(i)]) && eq(x[i], xv[std::size_t(i)]); return ok; });
		run("swap", [&](auto& x, auto& y, auto& xv, auto& yv, int ph) { if(!ph) { blas::swap(x, y); return true; } bool ok = true; for(L i = 0; i < n; ++i) ok &= eq(y[i], xv[std::size_t(i)]) && eq(x[i], yv[std::size_t(i)]); return ok; });
		run("dot", [&](auto& x, auto& y, auto& xv, auto& yv, int ph) { if(!ph) { res = +blas::dot(x, y); return true; } T s{}; for(L i = 0; i < n; ++i) s += xv[std::size_t(i)] * yv[std::size_t(i)]; return eq(res, s); });
		if constexpr(CPLX) {
			run("dot(conj-x)", [&](auto& x, auto& y, auto& xv, auto& yv, int ph) { if(!ph) { res = +blas::dot(blas::C(x), y); return true; } T s{}; for(L i = 0; i < n; ++i) s += conj_(xv[std::size_t(i)]) * yv[std::size_t(i)]; return eq(res, s); });
			run("dot(conj-y)", [&](auto& x, auto& y, auto& xv, auto& yv, int ph) { if(!ph) { res = +blas::dot(x, blas::C(y)); return true; } T s{}; for(L i = 0; i < n; ++i) s += xv[std::size_t(i)] * conj_(yv[std::size_t(i)]); return eq(res, s); });
		}
		run("nrm2", [&](auto& x, auto&, auto& xv, auto&, int ph) { if(!ph) { rres = +blas::nrm2(x); return true; } double s = 0; for(L i = 0; i < n; ++i) s += double(std::norm(xv[std::size_t(i)])); return std::abs(double(rres) - std::sqrt(s)) <= 4 * double(std::numeric_limits<R>::epsilon()) * (1 + std::sqrt(s)) * double(n + 1); });
		// asum and iamax cannot be instantiated in an assertion-enabled build of the pinned tree (asum: result type deduced as int / no matching core::asum;
		// iamax: assert(!offset(x)) names an inaccessible base): reported in evidence as not compilable, not exercised.
		(void)rres; (void)ires; count("not-compilable:asum"); count("not-compilable:iamax");
		return;
	}
	k -= 5L * 4 * 4;  // gemv: y = alpha*A*x + beta*y
	int const ka = int(take(4)), kx = int(take(4)), ky = int(take(4)); L const m = take(4), n = take(4); int const sc = int(take(3)), form = int(take(2)); int const opa = CPLX ? int(take(3)) : 0;  // 0 plain, 1 J(A) (conjugated), 2 H(A) (hermitian: the stored operand is n x m)
	static char const* OPA[] = {"", "J", "H"};
	static T const AL[] = {T(R(1)), T(R(2)), T(R(-1))}; static T const BE[] = {T(R(0)), T(R(1)), T(R(2))}; T const alpha = AL[sc], beta = form == 0 ? BE[sc] : T(R(0));
	Buf<T> RA, RX, RY; auto&& A = (opa == 2) ? mkm(RA, ka, n, m, POISON) : mkm(RA, ka, m, n, POISON); auto&& x = mkv(RX, kx, n, POISON); auto&& y = mkv(RY, ky, m, OUTFILL);
	auto la = [&](L i, L j) -> T { return opa == 0 ? T(A[i][j]) : (opa == 1 ? conj_(T(A[i][j])) : conj_(T(A[j][i]))); };  // logical m x n operand
	for(L i = 0; i < (opa == 2 ? n : m); ++i) for(L j = 0; j < (opa == 2 ? m : n); ++j) A[i][j] = val(i, j, 1); for(L j = 0; j < n; ++j) x[j] = val(j, 0, 2); for(L i = 0; i < m; ++i) y[i] = val(i, 1, 3);
	std::vector<T> ref(static_cast<std::size_t>(m), T{}); for(L i = 0; i < m; ++i) { T s{}; for(L j = 0; j < n; ++j) s += la(i, j) * T(x[j]); ref[std::size_t(i)] = alpha * s + beta * T(y[i]); }
	auto sa = RA.s, sx = RX.s; std::string const lay = std::string(OPA[opa]) + MK[ka] + "*" + VK_[kx] + "->" + VK_[ky]; std::string const szs = szc(m) + szc(n);
	std::string const key = std::string("C13:gemv:") + TN + ":" + ((n == 0) ? std::string("n0") : std::string(OPA[opa]) + MK[ka] + ":" + szs);
	describe(std::string("gemv ") + TN + " " + lay + " m,n=" + std::to_string(m) + "," + std::to_string(n) + " form=" + std::to_string(form) + " beta=" + std::to_string(std::real(beta))); sig_mix(lay.c_str()); sig_mix(szs.c_str()); sig_mix(std::uint64_t(form * 4 + sc)); nontrivial(m * n > 0);
	op((std::string("gemv:") + TN + ":" + OPA[opa] + MK[ka] + ":" + szs).c_str());
	Outcome o = classify([&] { if constexpr(CPLX) { if(opa == 1) { if(form == 0) blas::gemv(alpha, blas::J(A), x, beta, y); else y = blas::gemv(alpha, blas::J(A), x); return; } if(opa == 2) { if(form == 0) blas::gemv(alpha, blas::H(A), x, beta, y); else y = blas::gemv(alpha, blas::H(A), x); return; } }
		if(form == 0) blas::gemv(alpha, A, x, beta, y); else y = blas::gemv(alpha, A, x); }, [&]() -> Outcome {
		bool ok = true; for(L i = 0; i < m; ++i) ok &= eq(y[i], ref[std::size_t(i)]); for(L i = 0; i < m; ++i) y[i] = OUTFILL; long stray = 0; for(auto const& e : RY.s) stray += !(e == OUTFILL);
		if(stray) return {"oob-write", "elements outside y were written"}; if(!(RA.s == sa) || !(RX.s == sx)) return {"input-modified", "an input was modified"};
		if(!ok) return {(n == 0 && !eq(beta, T(R(1)))) ? "n0-beta-not-applied" : "wrong", "gemv result differs from alpha*A*x + beta*y, m,n=" + std::to_string(m) + "," + std::to_string(n)}; return {"ok", ""}; });
	count(std::string("gemv:op") + OPA[opa] + ":" + o.sym); report(key, o);
}
#endif

// ---------------------------------------------------------------------------------------------------------------- herk / syrk / trsm
#if C13_G == 3
static long nbase() { return 3L * 4 * 4 * 4 * 4 * 2 * 3; }
static long ncases() { return nbase() + (CPLX ? 4L * 4 * 4 * 4 * 2 * 4 * 4 : 0); }
// trsm with hermitian (conjugate-transposed) views of A and/or B and with complex scalars: op(A) X = alpha op(B), X overwrites op(B)
template<class TT> void trsm_ext(L k) {
	if constexpr(!std::is_arithmetic_v<TT>) {
		auto take = [&](L n) { L r = k % n; k /= n; return r; };
		int const ka = int(take(4)), kc = int(take(4)); L const n = take(4), kk = take(4); int const uplo = int(take(2)), form = int(take(4)), sc = int(take(4));
		bool const hA = (form & 1) != 0, hB = (form & 2) != 0; static char const* FN[] = {"A,B", "H(A),B", "A,H(B)", "H(A),H(B)"};
		static TT const ALC[] = {TT(R(1), R(0)), TT(R(2), R(3)), TT(R(0), R(-1)), TT(R(-2), R(1))}; TT const alpha = ALC[sc];
		std::string const lay = std::string(MK[ka]) + "->" + MK[kc]; std::string const szs = szc(n) + szc(kk); bool const deg = (n <= 1 || kk <= 1);
		Buf<TT> RA, RB; auto&& As = mkm(RA, ka, n, n, POISON); auto&& Bs = hB ? mkm(RB, kc, kk, n, OUTFILL) : mkm(RB, kc, n, kk, OUTFILL);
		auto Aat = [&](L i, L j) -> TT { return hA ? std::conj(TT(As[j][i])) : TT(As[i][j]); }; auto Bat = [&](L i, L j) -> TT { return hB ? std::conj(TT(Bs[j][i])) : TT(Bs[i][j]); };
		for(L i = 0; i < n; ++i) for(L j = 0; j < n; ++j) { bool in = uplo ? (j >= i) : (j <= i); TT v = in ? (i == j ? TT(R(i % 2 ? 2 : 1)) : val<TT>(i, j, 1)) : POISON; if(hA) As[j][i] = in ? std::conj(v) : v; else As[i][j] = v; }
		std::vector<TT> X(static_cast<std::size_t>(n * kk), TT{}); for(L i = 0; i < n; ++i) for(L j = 0; j < kk; ++j) X[std::size_t(i * kk + j)] = val<TT>(i, j, 2);
		for(L i = 0; i < n; ++i) for(L j = 0; j < kk; ++j) { TT s{}; for(L p = 0; p < n; ++p) { bool in = uplo ? (p >= i) : (p <= i); if(in) s += Aat(i, p) * X[std::size_t(p * kk + j)]; } if(hB) Bs[j][i] = std::conj(s); else Bs[i][j] = s; }
		auto sa = RA.s; std::string const key = std::string("C13:trsm:") + TN + ":" + lay + ":" + FN[form] + (sc ? ":complex-alpha:" : ":alpha=1:") + (deg ? "degenerate" : "general");
		describe(std::string("trsm ") + TN + " " + FN[form] + " " + lay + (uplo ? " upper" : " lower") + " alpha#" + std::to_string(sc) + " n,k=" + std::to_string(n) + "," + std::to_string(kk)); sig_mix("trsm-ext"); sig_mix(lay.c_str()); sig_mix(szs.c_str()); sig_mix(std::uint64_t(form * 4 + sc)); nontrivial(n > 0 && kk > 0); op((std::string("trsm:") + FN[form] + ":" + lay + ":" + szs).c_str());
		auto const fl = uplo ? blas::filling::upper : blas::filling::lower;
		Outcome o = classify([&] { switch(form) { case 0: blas::trsm(blas::side::left, fl, alpha, As, std::move(Bs)); break; case 1: blas::trsm(blas::side::left, fl, alpha, blas::H(As), std::move(Bs)); break; case 2: blas::trsm(blas::side::left, fl, alpha, As, blas::H(Bs)); break; default: blas::trsm(blas::side::left, fl, alpha, blas::H(As), blas::H(Bs)); break; } }, [&]() -> Outcome {
			bool ok = true; for(L i = 0; i < n; ++i) for(L j = 0; j < kk; ++j) { TT const want = alpha * X[std::size_t(i * kk + j)]; ok &= std::abs(Bat(i, j) - want) <= R(1e-4) * (R(1) + std::abs(want)); }
			for(L i = 0; i < n; ++i) for(L j = 0; j < kk; ++j) { if(hB) Bs[j][i] = OUTFILL; else Bs[i][j] = OUTFILL; } long stray = 0; for(auto const& e : RB.s) stray += !(e == OUTFILL);
			if(stray) return {"oob-write", "elements outside B were written"}; if(!(RA.s == sa)) return {"input-modified", "A was modified"}; if(!ok) return {"wrong", "trsm solution differs from alpha*inv(op(A))*op(B), n,k=" + std::to_string(n) + "," + std::to_string(kk)}; return {"ok", ""}; });
		count(std::string("trsm:") + FN[form] + (sc ? ":complex-alpha:" : ":alpha=1:") + o.sym); report(key, o);
	} else { (void)k; }
}
static void one(Case& cs) {
	if(cs.k >= nbase()) { trsm_ext<T>(cs.k - nbase()); return; }
	L k = cs.k; auto take = [&](L n) { L r = k % n; k /= n; return r; };
	int const which = int(take(3)), ka = int(take(4)), kc = int(take(4)); L const n = take(4), kk = take(4); int const uplo = int(take(2)), sc = int(take(3));
	static R const AL[] = {R(1), R(2), R(-1)}; static R const BE[] = {R(0), R(1), R(2)};
	std::string const lay = std::string(MK[ka]) + "->" + MK[kc]; std::string const tri = uplo ? "upper" : "lower"; std::string const szs = szc(n) + szc(kk); bool const deg = (n <= 1 || kk <= 1);
	if(which == 0 || which == 1) {  // herk: C = alpha*A*A^H + beta*C on one triangle (syrk: A*A^T)
		char const* opn = which == 0 ? "herk" : "syrk"; if(which == 0 && !CPLX) { opn = "herk(real)"; }
		Buf<T> RA, RC; auto&& A = mkm(RA, ka, n, kk, POISON); auto&& C = mkm(RC, kc, n, n, OUTFILL);
		for(L i = 0; i < n; ++i) for(L j = 0; j < kk; ++j) A[i][j] = val(i, j, 1); for(L i = 0; i < n; ++i) for(L j = 0; j < n; ++j) C[i][j] = (which == 0 && i == j) ? T(R(std::real(val(i, j, 3)))) : val(std::min(i, j), std::max(i, j), 3);
		std::vector<T> ref(static_cast<std::size_t>(n * n), T{}), orig(static_cast<std::size_t>(n * n), T{}); for(L i = 0; i < n; ++i) for(L j = 0; j < n; ++j) { T s{}; for(L p = 0; p < kk; ++p) s += T(A[i][p]) * (which == 0 ? conj_(A[j][p]) : T(A[j][p])); orig[std::size_t(i * n + j)] = C[i][j]; ref[std::size_t(i * n + j)] = T(AL[sc]) * s + T(BE[sc]) * T(C[i][j]); }
		auto sa = RA.s; std::string const key = std::string("C13:") + opn + ":" + TN + ":" + lay + ":" + (deg ? "degenerate" : "general");
		describe(std::string(opn) + " " + TN + " " + lay + " " + tri + " n,k=" + std::to_string(n) + "," + std::to_string(kk)); sig_mix(opn); sig_mix(lay.c_str()); sig_mix(szs.c_str()); sig_mix(std::uint64_t(sc)); nontrivial(n > 0); op((std::string(opn) + ":" + lay + ":" + szs).c_str());
		Outcome o = classify([&] { auto fl = uplo ? blas::filling::upper : blas::filling::lower; if(which == 0) blas::herk(fl, AL[sc], A, BE[sc], std::move(C)); else blas::syrk(fl, T(AL[sc]), A, T(BE[sc]), std::move(C)); }, [&]() -> Outcome {
			bool ok = true, other = true; for(L i = 0; i < n; ++i) for(L j = 0; j < n; ++j) { bool in = uplo ? (j >= i) : (j <= i); if(in) ok &= eq(C[i][j], ref[std::size_t(i * n + j)]); else other &= eq(C[i][j], orig[std::size_t(i * n + j)]); }
			for(L i = 0; i < n; ++i) for(L j = 0; j < n; ++j) C[i][j] = OUTFILL; long stray = 0; for(auto const& e : RC.s) stray += !(e == OUTFILL);
			if(stray) return {"oob-write", "elements outside C were written"}; if(!(RA.s == sa)) return {"input-modified", "A was modified"};
			if(!ok) return {"wrong", std::string(opn) + " differs from alpha*A*A' + beta*C on the selected triangle, n,k=" + std::to_string(n) + "," + std::to_string(kk)}; if(!other) return {"other-triangle-modified", "the triangle that was not selected was modified"}; return {"ok", ""}; });
		report(key, o); return;
	}
	// trsm: solve op(A) X = alpha B in place (left side), A triangular n x n with power-of-two diagonal, B n x kk
	Buf<T> RA, RB; auto&& A = mkm(RA, ka, n, n, POISON); auto&& B = mkm(RB, kc, n, kk, OUTFILL);
	for(L i = 0; i < n; ++i) for(L j = 0; j < n; ++j) { bool in = uplo ? (j >= i) : (j <= i); A[i][j] = in ? (i == j ? T(R(i % 2 ? 2 : 1)) : val(i, j, 1)) : POISON; }
	std::vector<T> X(static_cast<std::size_t>(n * kk), T{}); for(L i = 0; i < n; ++i) for(L j = 0; j < kk; ++j) X[std::size_t(i * kk + j)] = val(i, j, 2);
	T const alpha = T(AL[sc]); for(L i = 0; i < n; ++i) for(L j = 0; j < kk; ++j) { T s{}; for(L p = 0; p < n; ++p) { bool in = uplo ? (p >= i) : (p <= i); if(in) s += T(A[i][p]) * X[std::size_t(p * kk + j)]; } B[i][j] = s / alpha; }
	auto sa = RA.s; std::string const key = std::string("C13:trsm:") + TN + ":" + lay + ":" + (deg ? "degenerate" : "general");
	describe(std::string("trsm ") + TN + " " + lay + " " + tri + " n,k=" + std::to_string(n) + "," + std::to_string(kk)); sig_mix("trsm"); sig_mix(lay.c_str()); sig_mix(szs.c_str()); sig_mix(std::uint64_t(sc)); nontrivial(n > 0 && kk > 0); op((std::string("trsm:") + lay + ":" + szs).c_str());
	Outcome o = classify([&] { blas::trsm(blas::side::left, uplo ? blas::filling::upper : blas::filling::lower, alpha, A, std::move(B)); }, [&]() -> Outcome {
		bool ok = true; for(L i = 0; i < n; ++i) for(L j = 0; j < kk; ++j) ok &= std::abs(T(B[i][j]) - X[std::size_t(i * kk + j)]) <= R(1e-4) * (R(1) + std::abs(X[std::size_t(i * kk + j)]));
		for(L i = 0; i < n; ++i) for(L j = 0; j < kk; ++j) B[i][j] = OUTFILL; long stray = 0; for(auto const& e : RB.s) stray += !(e == OUTFILL);
		if(stray) return {"oob-write", "elements outside B were written"}; if(!(RA.s == sa)) return {"input-modified", "A was modified"}; if(!ok) return {"wrong", "trsm solution differs, n,k=" + std::to_string(n) + "," + std::to_string(kk)}; return {"ok", ""}; });
	report(key, o);
}
#endif

// ---------------------------------------------------------------------------------------------------------------- lazy-range and operator forms
#if C13_G == 4
// level 1: n 0..4 x kinds; gemv forms: A kind x x kind x y kind x m,n 0..3; gemm operator forms: plain operands, general sizes; trsm operator forms
static long n_l1() { return 5L * 4 * 4; } static long n_gemv() { return 4L * 4 * 4 * 4 * 4; } static long n_gemm() { return 4L * 4 * 4 * 2 * 2 * 2; } static long n_trsm() { return 4L * 4 * 3 * 3 * 2 * 2; }
static long n_herk() { return 4L * 4 * 3 * 3; }
static long ncases() { return n_l1() + n_gemv() + n_gemm() + n_trsm() + n_herk(); }
static void one(Case& cs) {
	L k = cs.k; auto take = [&](L n) { L r = k % n; k /= n; return r; };
	if(cs.k < n_l1()) {
		L const n = take(5); int const kx = int(take(4)), ky = int(take(4));
		std::string const lay = std::string(VK_[kx]) + "," + VK_[ky]; std::string const szs = szc(n);
		describe(std::string("level1-forms ") + TN + " x=" + VK_[kx] + " y=" + VK_[ky] + " n=" + std::to_string(n)); sig_mix("l1f"); sig_mix(lay.c_str()); sig_mix(szs.c_str()); nontrivial(n > 0);
		auto run = [&](char const* opn, auto&& body) {
			Buf<T> RX, RY; auto&& x = mkv(RX, kx, n, POISON); auto&& y = mkv(RY, ky, n, OUTFILL); for(L i = 0; i < n; ++i) { x[i] = val(i, 0, 1); y[i] = val(i, 1, 2); }
			std::vector<T> xv(x.begin(), x.end()), yv(y.begin(), y.end()); auto sx = RX.s, sy = RY.s;
			op((std::string(opn) + ":" + lay + ":" + szs).c_str()); std::string key = std::string("C13:") + opn + ":" + TN + ":" + lay + ":n" + szs;
			Outcome o = classify([&] { body(x, y, xv, yv, 0); }, [&]() -> Outcome { return body(x, y, xv, yv, 1) ? Outcome{"ok", ""} : Outcome{"wrong", std::string(opn) + " result differs from its definition, n=" + std::to_string(n)}; });
			if(o.sym == "ok") { for(L i = 0; i < n; ++i) { x[i] = xv[std::size_t(i)]; y[i] = yv[std::size_t(i)]; } if(RX.touched(sx) || RY.touched(sy)) o = {"oob-write", "elements outside the vector views were modified"}; }
			report(key, o); count(std::string("op:") + opn); };
		T const a = CPLX ? val<T>(1, 2, 5) : T(R(2)); static T res; static R rres; static multi::array<T, 1> Z; static bool bres;
		auto lin = [&](auto& y, auto& x, auto& xv, auto& yv, T ca, T cb) { bool ok = true; for(L i = 0; i < n; ++i) ok &= eq(y[i], ca * xv[std::size_t(i)] + cb * yv[std::size_t(i)]) && eq(x[i], xv[std::size_t(i)]); return ok; };
		run("y+=axpy(a,x)", [&](auto& x, auto& y, auto& xv, auto& yv, int ph) { if(!ph) { y += blas::axpy(a, std::as_const(x)); return true; } return lin(y, x, xv, yv, a, T(R(1))); });
		run("y-=axpy(a,x)", [&](auto& x, auto& y, auto& xv, auto& yv, int ph) { if(!ph) { y -= blas::axpy(a, std::as_const(x)); return true; } return lin(y, x, xv, yv, -a, T(R(1))); });
		run("y+=a*x", [&](auto& x, auto& y, auto& xv, auto& yv, int ph) { if(!ph) { using blas::operators::operator*; using blas::operators::operator+=; multi::array<T, 1> Y(y); Y += a * x; y = Y; return true; } return lin(y, x, xv, yv, a, T(R(1))); });
		run("y-=a*x", [&](auto& x, auto& y, auto& xv, auto& yv, int ph) { if(!ph) { using blas::operators::operator*; using blas::operators::operator-=; multi::array<T, 1> Y(y); Y -= a * x; y = Y; return true; } return lin(y, x, xv, yv, -a, T(R(1))); });
		run("y+=x", [&](auto& x, auto& y, auto& xv, auto& yv, int ph) { if(!ph) { using blas::operators::operator+=; y += x; return true; } return lin(y, x, xv, yv, T(R(1)), T(R(1))); });
		run("y-=x", [&](auto& x, auto& y, auto& xv, auto& yv, int ph) { if(!ph) { using blas::operators::operator-=; y -= x; return true; } return lin(y, x, xv, yv, T(R(-1)), T(R(1))); });
		run("x+y", [&](auto& x, auto& y, auto& xv, auto& yv, int ph) { if(!ph) { using blas::operators::operator+; Z = x + y; return true; } bool ok = Z.size() == n && lin(y, x, xv, yv, T(R(0)), T(R(1))); for(L i = 0; ok && i < n; ++i) ok &= eq(Z[i], xv[std::size_t(i)] + yv[std::size_t(i)]); return ok; });
		run("x-y", [&](auto& x, auto& y, auto& xv, auto& yv, int ph) { if(!ph) { using blas::operators::operator-; Z = x - y; return true; } bool ok = Z.size() == n && lin(y, x, xv, yv, T(R(0)), T(R(1))); for(L i = 0; ok && i < n; ++i) ok &= eq(Z[i], xv[std::size_t(i)] - yv[std::size_t(i)]); return ok; });
		run("y*=a", [&](auto& x, auto& y, auto& xv, auto& yv, int ph) { if(!ph) { using blas::operators::operator*=; y *= a; return true; } return lin(y, x, xv, yv, T(R(0)), a); });
		run("y*=scal(a)", [&](auto& x, auto& y, auto& xv, auto& yv, int ph) { if(!ph) { y *= blas::scal(a); return true; } return lin(y, x, xv, yv, T(R(0)), a); });
		run("y=copy(x)", [&](auto& x, auto& y, auto& xv, auto& yv, int ph) { if(!ph) { y = blas::copy(x); return true; } return lin(y, x, xv, yv, T(R(1)), T(R(0))); });
		run("array=copy(x)", [&](auto& x, auto& y, auto& xv, auto& yv, int ph) { if(!ph) { multi::array<T, 1> W = blas::copy(x); Z = W; return true; } bool ok = Z.size() == n && lin(y, x, xv, yv, T(R(0)), T(R(1))); for(L i = 0; ok && i < n; ++i) ok &= eq(Z[i], xv[std::size_t(i)]); return ok; });
		run("y<<x", [&](auto& x, auto& y, auto& xv, auto& yv, int ph) { if(!ph) { using blas::operators::operator<<; y << x; return true; } return lin(y, x, xv, yv, T(R(1)), T(R(0))); });
		count("not-compilable:x^y(operators)");  // blas::operators::operator^(x, y) (swap) cannot be instantiated for arrays or views on the pinned tree
		auto dotref = [&](auto& xv, auto& yv) { T s{}; for(L i = 0; i < n; ++i) s += xv[std::size_t(i)] * yv[std::size_t(i)]; return s; };
		run("T=dot(x,y)", [&](auto& x, auto& y, auto& xv, auto& yv, int ph) { if(!ph) { T r = blas::dot(x, y); res = r; return true; } return eq(res, dotref(xv, yv)) && lin(y, x, xv, yv, T(R(0)), T(R(1))); });
		run("dot(x,y,res)", [&](auto& x, auto& y, auto& xv, auto& yv, int ph) { if(!ph) { res = T(R(99)); blas::dot(x, y, res); return true; } return eq(res, dotref(xv, yv)) && lin(y, x, xv, yv, T(R(0)), T(R(1))); });
		run("dot(x,y)==value", [&](auto& x, auto& y, auto& xv, auto& yv, int ph) { if(!ph) { bres = (blas::dot(x, y) == dotref(xv, yv)) && !(blas::dot(x, y) != dotref(xv, yv)) && (blas::dot(x, y) == blas::dot(x, y)); return true; } return bres; });
		run("array0=dot(x,y)", [&](auto& x, auto& y, auto& xv, auto& yv, int ph) { if(!ph) { multi::array<T, 0> r0 = blas::dot(x, y); res = *r0.data_elements(); return true; } return eq(res, dotref(xv, yv)); });
		run("R=nrm2(x)", [&](auto& x, auto&, auto& xv, auto&, int ph) { if(!ph) { R r = blas::nrm2(x); rres = r; return true; } double s2 = 0; for(L i = 0; i < n; ++i) s2 += double(std::norm(xv[std::size_t(i)])); return std::abs(double(rres) - std::sqrt(s2)) <= 4 * double(std::numeric_limits<R>::epsilon()) * (1 + std::sqrt(s2)) * double(n + 1); });
		run("abs(x)", [&](auto& x, auto&, auto& xv, auto&, int ph) { if(!ph) { using blas::operators::abs; rres = +abs(x); return true; } double s2 = 0; for(L i = 0; i < n; ++i) s2 += double(std::norm(xv[std::size_t(i)])); return std::abs(double(rres) - std::sqrt(s2)) <= 4 * double(std::numeric_limits<R>::epsilon()) * (1 + std::sqrt(s2)) * double(n + 1); });
		(void)bres; return;
	}
	k -= n_l1();
	if(k < n_gemv()) {
		int const ka = int(take(4)), kx = int(take(4)), ky = int(take(4)); L const m = take(4), n = take(4);
		std::string const lay = std::string(MK[ka]) + "*" + VK_[kx] + "->" + VK_[ky]; std::string const szs = szc(m) + szc(n);
		describe(std::string("gemv-forms ") + TN + " " + lay + " m,n=" + std::to_string(m) + "," + std::to_string(n)); sig_mix("gemvf"); sig_mix(lay.c_str()); sig_mix(szs.c_str()); nontrivial(m > 0 && n > 0);
		T const alpha = CPLX ? val<T>(2, 1, 5) : T(R(2)); static multi::array<T, 1> Z;
		auto run = [&](char const* opn, T ca, bool into_y, auto&& act) {
			Buf<T> RA, RX, RY; auto&& A = mkm(RA, ka, m, n, POISON); auto&& x = mkv(RX, kx, n, POISON); auto&& y = mkv(RY, ky, m, OUTFILL);
			for(L i = 0; i < m; ++i) for(L j = 0; j < n; ++j) A[i][j] = val(i, j, 1); for(L j = 0; j < n; ++j) x[j] = val(j, 0, 2); for(L i = 0; i < m; ++i) y[i] = val(i, 1, 3);
			std::vector<T> ref(static_cast<std::size_t>(m), T{}); for(L i = 0; i < m; ++i) { T s2{}; for(L j = 0; j < n; ++j) s2 += T(A[i][j]) * T(x[j]); ref[std::size_t(i)] = ca * s2 + (into_y ? T(y[i]) : T{}); }
			auto sa = RA.s, sx = RX.s; std::vector<T> y0(y.begin(), y.end());
			std::string const key = std::string("C13:gemv:") + TN + ":" + ((n == 0) ? std::string("n0") : std::string(MK[ka]) + ":" + szs); op((std::string(opn) + ":" + lay + ":" + szs).c_str());
			Outcome o = classify([&] { act(A, x, y); }, [&]() -> Outcome { bool ok = true;
				if(into_y) { for(L i = 0; i < m; ++i) ok &= eq(y[i], ref[std::size_t(i)]); } else { ok = (Z.size() == m); for(L i = 0; ok && i < m; ++i) ok &= eq(Z[i], ref[std::size_t(i)]) && eq(y[i], y0[std::size_t(i)]); }
				for(L i = 0; i < m; ++i) y[i] = OUTFILL; long stray = 0; for(auto const& e : RY.s) stray += !(e == OUTFILL);
				if(stray) return {"oob-write", "elements outside y were written"}; if(!(RA.s == sa) || !(RX.s == sx)) return {"input-modified", "an input was modified"};
				if(!ok) return {(n == 0 && !into_y) ? "n0-beta-not-applied" : "wrong", std::string(opn) + " differs from its definition, m,n=" + std::to_string(m) + "," + std::to_string(n)}; return {"ok", ""}; });
			report(key, o); count(std::string("op:") + opn); };
		run("y+=gemv(a,A,x)", alpha, true, [&](auto& A, auto& x, auto& y) { y += blas::gemv(alpha, A, x); });
		run("+gemv(a,A,x)", alpha, false, [&](auto& A, auto& x, auto&) { Z = +blas::gemv(alpha, A, x); });
		run("array=gemv(a,A,x)", alpha, false, [&](auto& A, auto& x, auto&) { multi::array<T, 1> W = blas::gemv(alpha, A, x); Z = W; });
		run("A%x", T(R(1)), false, [&](auto& A, auto& x, auto&) { using blas::operators::operator%; Z = A % x; });
		run("(a*A)%x", alpha, false, [&](auto& A, auto& x, auto&) { using blas::operators::operator*; Z = +((alpha * A) % x); });
		return;
	}
	k -= n_gemv();
	if(k < n_gemm()) {
#if C13_T == 3
		describe("gemm-forms: complex<float> gemm does not compile on the pinned tree"); count("not-compilable:gemm<complex<float>>"); return;
#else
		int const ka = int(take(4)), kb = int(take(4)), kc = int(take(4)); L const m = 2 + take(2), n = 2 + take(2), kk = 2 + take(2);
		std::string const lay = std::string("N") + MK[ka] + "*N" + MK[kb] + "->" + MK[kc]; std::string const szs = szc(m) + szc(n) + szc(kk);
		describe(std::string("gemm-forms ") + TN + " " + lay + " m,n,k=" + std::to_string(m) + "," + std::to_string(n) + "," + std::to_string(kk)); sig_mix("gemmf"); sig_mix(lay.c_str()); sig_mix(std::uint64_t(m * 16 + n * 4 + kk)); nontrivial();
		T const alpha = CPLX ? val<T>(2, 1, 5) : T(R(2));
		auto run = [&](char const* opn, T ca, T cb, auto&& act) {
			Buf<T> RA, RB, RC; auto&& A = mkm(RA, ka, m, kk, POISON); auto&& B = mkm(RB, kb, kk, n, POISON); auto&& C = mkm(RC, kc, m, n, OUTFILL);
			for(L i = 0; i < m; ++i) for(L j = 0; j < kk; ++j) A[i][j] = val(i, j, 1); for(L i = 0; i < kk; ++i) for(L j = 0; j < n; ++j) B[i][j] = val(i, j, 2); for(L i = 0; i < m; ++i) for(L j = 0; j < n; ++j) C[i][j] = val(i, j, 3);
			std::vector<T> ref(static_cast<std::size_t>(m * n), T{}); for(L i = 0; i < m; ++i) for(L j = 0; j < n; ++j) { T s2{}; for(L q = 0; q < kk; ++q) s2 += T(A[i][q]) * T(B[q][j]); ref[std::size_t(i * n + j)] = ca * s2 + cb * T(C[i][j]); }
			auto sa = RA.s, sb = RB.s; std::string const key = std::string("C13:gemm:") + TN + ":" + lay + ":" + szs; op((std::string(opn) + ":" + lay).c_str());
			Outcome o = classify([&] { act(A, B, C); }, [&]() -> Outcome { bool ok = true; for(L i = 0; i < m; ++i) for(L j = 0; j < n; ++j) ok &= eq(C[i][j], ref[std::size_t(i * n + j)]);
				for(L i = 0; i < m; ++i) for(L j = 0; j < n; ++j) C[i][j] = OUTFILL; long stray = 0; for(auto const& e : RC.s) stray += !(e == OUTFILL);
				if(stray) return {"oob-write", "elements outside C were written"}; if(!(RA.s == sa) || !(RB.s == sb)) return {"input-modified", "an input was modified"};
				if(!ok) return {"wrong", std::string(opn) + " differs from its definition"}; return {"ok", ""}; });
			report(key, o); count(std::string("op:") + opn); };
		run("C=A*B", T(R(1)), T(R(0)), [&](auto& A, auto& B, auto& C) { using blas::operators::operator*; C = A * B; });
		run("C+=A*B", T(R(1)), T(R(1)), [&](auto& A, auto& B, auto& C) { using blas::operators::operator*; C += A * B; });
		run("C=a*gemm(b,A,B)", alpha * alpha, T(R(0)), [&](auto& A, auto& B, auto& C) { C = alpha * blas::gemm(alpha, A, B); });
		run("array=+(A*B)", T(R(1)), T(R(0)), [&](auto& A, auto& B, auto& C) { using blas::operators::operator*; multi::array<T, 2> W = +(A * B); C = W; });
		return;
#endif
	}
	k -= n_gemm();
	if(k >= n_trsm()) {  // herk convenience forms: both triangles / returned array
		k -= n_trsm(); int const ka = int(take(4)), kc = int(take(4)); L const n = 1 + take(3), kk = 1 + take(3);
		std::string const lay = std::string(MK[ka]) + "->" + MK[kc]; bool const deg = (n <= 1 || kk <= 1); char const* opn0 = CPLX ? "herk" : "herk(real)";
		describe(std::string("herk-forms ") + TN + " " + lay + " n,k=" + std::to_string(n) + "," + std::to_string(kk)); sig_mix("herkf"); sig_mix(lay.c_str()); sig_mix(std::uint64_t(n * 4 + kk)); nontrivial();
		auto run = [&](char const* opn, R ca, auto&& act) {
			Buf<T> RA, RC; auto&& A = mkm(RA, ka, n, kk, POISON); auto&& C = mkm(RC, kc, n, n, OUTFILL); for(L i = 0; i < n; ++i) for(L j = 0; j < kk; ++j) A[i][j] = val(i, j, 1);
			std::vector<T> ref(static_cast<std::size_t>(n * n), T{}); for(L i = 0; i < n; ++i) for(L j = 0; j < n; ++j) { T s2{}; for(L q = 0; q < kk; ++q) s2 += T(A[i][q]) * conj_(T(A[j][q])); ref[std::size_t(i * n + j)] = T(ca) * s2; }
			auto sa = RA.s; std::string const key = std::string("C13:") + opn0 + ":" + TN + ":" + lay + ":" + (deg ? "degenerate" : "general"); op((std::string(opn) + ":" + lay).c_str());
			Outcome o = classify([&] { act(A, C); }, [&]() -> Outcome { bool ok = true; for(L i = 0; i < n; ++i) for(L j = 0; j < n; ++j) ok &= eq(C[i][j], ref[std::size_t(i * n + j)]);
				for(L i = 0; i < n; ++i) for(L j = 0; j < n; ++j) C[i][j] = OUTFILL; long stray = 0; for(auto const& e : RC.s) stray += !(e == OUTFILL);
				if(stray) return {"oob-write", "elements outside C were written"}; if(!(RA.s == sa)) return {"input-modified", "A was modified"};
				if(!ok) return {"wrong", std::string(opn) + " differs from alpha*A*A^H on the full matrix, n,k=" + std::to_string(n) + "," + std::to_string(kk)}; return {"ok", ""}; });
			count(std::string("op:") + opn + ":" + o.sym); report(key, o); };
		run("herk(a,A,C)", R(2), [&](auto& A, auto& C) { blas::herk(R(2), A, std::move(C)); });
		run("herk(A,C)", R(1), [&](auto& A, auto& C) { blas::herk(A, std::move(C)); });
		run("array=herk(a,A)", R(2), [&](auto& A, auto& C) { multi::array<T, 2> W = blas::herk(R(2), A); C = W; });
		run("array=herk(A)", R(1), [&](auto& A, auto& C) { multi::array<T, 2> W = blas::herk(A); C = W; });
		return;
	}
	{	// trsm operator forms:  B |= U(A)  solves A X = B (left),  B /= U(A)  solves X A = B (right)
		int const ka = int(take(4)), kc = int(take(4)); L const n = 1 + take(3), kk = 1 + take(3); int const uplo = int(take(2)), right = int(take(2));
		std::string const lay = std::string(MK[ka]) + "->" + MK[kc]; std::string const szs = szc(n) + szc(kk); bool const deg = (n <= 1 || kk <= 1);
		Buf<T> RA, RB; auto&& A = mkm(RA, ka, n, n, POISON); auto&& B = right ? mkm(RB, kc, kk, n, OUTFILL) : mkm(RB, kc, n, kk, OUTFILL); L const br = right ? kk : n, bc = right ? n : kk;
		for(L i = 0; i < n; ++i) for(L j = 0; j < n; ++j) { bool in = uplo ? (j >= i) : (j <= i); A[i][j] = in ? (i == j ? T(R(i % 2 ? 2 : 1)) : val(i, j, 1)) : POISON; }
		std::vector<T> X(static_cast<std::size_t>(br * bc), T{}); for(L i = 0; i < br; ++i) for(L j = 0; j < bc; ++j) X[std::size_t(i * bc + j)] = val(i, j, 2);
		auto Ain = [&](L i, L j) { bool in = uplo ? (j >= i) : (j <= i); return in ? T(A[i][j]) : T{}; };
		for(L i = 0; i < br; ++i) for(L j = 0; j < bc; ++j) { T s2{}; if(right) { for(L q = 0; q < n; ++q) s2 += X[std::size_t(i * bc + q)] * Ain(q, j); } else { for(L q = 0; q < n; ++q) s2 += Ain(i, q) * X[std::size_t(q * bc + j)]; } B[i][j] = s2; }
		char const* opn = right ? (uplo ? "B/=U(A)" : "B/=L(A)") : (uplo ? "B|=U(A)" : "B|=L(A)");
		auto sa = RA.s; std::string const key = std::string("C13:trsm:") + TN + ":" + lay + ":" + opn + ":" + (deg ? "degenerate" : "general");
		describe(std::string("trsm-forms ") + TN + " " + opn + " " + lay + " n,k=" + std::to_string(n) + "," + std::to_string(kk)); sig_mix("trsmf"); sig_mix(opn); sig_mix(lay.c_str()); sig_mix(szs.c_str()); nontrivial(); op((std::string(opn) + ":" + lay + ":" + szs).c_str());
		Outcome o = classify([&] { using blas::operators::operator/=; using blas::operators::operator|=; if(right) { if(uplo) B /= blas::U(A); else B /= blas::L(A); } else { if(uplo) B |= blas::U(A); else B |= blas::L(A); } }, [&]() -> Outcome {
			bool ok = true; for(L i = 0; i < br; ++i) for(L j = 0; j < bc; ++j) ok &= std::abs(T(B[i][j]) - X[std::size_t(i * bc + j)]) <= R(1e-4) * (R(1) + std::abs(X[std::size_t(i * bc + j)]));
			for(L i = 0; i < br; ++i) for(L j = 0; j < bc; ++j) B[i][j] = OUTFILL; long stray = 0; for(auto const& e : RB.s) stray += !(e == OUTFILL);
			if(stray) return {"oob-write", "elements outside B were written"}; if(!(RA.s == sa)) return {"input-modified", "A was modified"}; if(!ok) return {"wrong", std::string(opn) + " does not solve the triangular system, n,k=" + std::to_string(n) + "," + std::to_string(kk)}; return {"ok", ""}; });
		count(std::string("op:") + opn + ":" + o.sym); report(key, o);
	}
}
#endif

int main(int argc, char** argv) {
	for(int i = 1; i < argc; ++i) if(std::string(argv[i]) == "--list") { std::printf("%ld\n", ncases()); return 0; }
	return main_loop(argc, argv, [&](Case& c) { if(c.k < ncases()) one(c); });
}
