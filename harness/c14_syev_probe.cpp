// C14 compile probe: lapack/syev.hpp does not compile at the pinned commit (malformed #include lines, missing NODISCARD header). If a later tree
// makes it compile, this probe builds and the check reports that the syev cases are not exercised yet (inconclusive note), never a false "held".
#include <boost/multi/adaptors/lapack/syev.hpp>
int main() { return 0; }
