// C09 — fault enumeration: every single injection point (k-th allocation / element copy-ctor / move-ctor / copy-assign / move-assign /
// value-ctor / default-ctor) of every scenario (operation x prior state x shape) is made to throw in a forked child, which then probes
// propagation, leaks, double frees and the validity of every surviving array.
#define VK_MAIN
#include "../kit/viewprog.hpp"
#include "../kit/tracked.hpp"
#include <optional>
using namespace vk;
template<class A> struct LazyRange { A const* a; auto extensions() const { return a->extensions(); } auto begin() const { return a->begin(); } auto end() const { return a->end(); } auto size() const { return a->size(); } };


#ifndef H_D
#define H_D 2
#endif
constexpr int D = H_D;
using Elem = tracked<int>; using Alloc = ledger_alloc<Elem, 0>; using Arr = multi::array<Elem, D, Alloc>; using SArr = multi::static_array<Elem, D, Alloc>;
using OArr = multi::array<int, D>;

static char const* FK[] = {"alloc", "copy-ctor", "move-ctor", "copy-assign", "move-assign", "value-ctor", "default-ctor"};
constexpr int NFK = 7;
static long& fk_at(int k) { auto& f = faults(); switch(k) { case 0: return f.alloc_at; case 1: return f.copy_ctor_at; case 2: return f.move_ctor_at; case 3: return f.copy_assign_at; case 4: return f.move_assign_at; case 5: return f.value_ctor_at; default: return f.default_ctor_at; } }
static long fk_n(int k) { auto& f = faults(); switch(k) { case 0: return f.n_alloc; case 1: return f.n_copy_ctor; case 2: return f.n_move_ctor; case 3: return f.n_copy_assign; case 4: return f.n_move_assign; case 5: return f.n_value_ctor; default: return f.n_default_ctor; } }

struct Scn { std::string name; int prior; std::vector<L> shape, other; bool no_alloc_expected; int opid; };  // prior: 0 none/empty target, 1 same extents, 2 other extents
static std::vector<Scn> scenarios;
static std::string g_key_prefix;

static std::vector<L> alt_shape(std::vector<L> s) { s[0] += 1; if(s.size() > 1) s.back() = std::max<L>(1, s.back() - 1); return s; }

static void build_scenarios(bool thorough) {
	std::vector<std::vector<L>> shapes;
	if(D == 1) { shapes = {{3}}; if(thorough) shapes.push_back({1}), shapes.push_back({5}); }
	if(D == 2) { shapes = {{2, 2}}; if(thorough) shapes.push_back({2, 3}), shapes.push_back({3, 1}); }
	if(D == 3) { shapes = {{2, 1, 2}}; if(thorough) shapes.push_back({2, 2, 2}); }
	struct O { char const* n; int id; std::vector<int> priors; bool noalloc_same; };
	std::vector<O> ops = {
		{"ctor(ext)", 1, {0}, false}, {"ctor(ext,value)", 2, {0}, false}, {"ctor(ext,value,alloc)", 3, {0}, false}, {"copy-ctor", 4, {0}, false}, {"copy-ctor(alloc)", 5, {0}, false}, {"move-ctor", 6, {0}, true},
		{"ctor(view)", 7, {0}, false}, {"ctor(first,last)", 8, {0}, false}, {"ctor(init-list)", 9, {0}, false},
		{"copy-assign", 10, {0, 1, 2}, true}, {"move-assign", 11, {0, 1, 2}, true}, {"assign-from-view", 12, {1, 2}, true}, {"assign-from-other-element-type", 13, {1, 2}, true}, {"assign-init-list", 14, {1, 2}, false}, {"assign(first,last)", 15, {1, 2}, true},
		{"reextent(x)", 16, {0, 2}, false}, {"reextent(x,v)", 17, {0, 2}, false}, {"reextent(&&)", 18, {0, 2}, false}, {"clear", 19, {1}, true}, {"swap", 20, {1, 2}, true}, {"decay(+)", 21, {0}, false},
		{"view=view", 22, {1}, true}, {"view=move(view)", 23, {1}, true}, {"view.elements()=elements()", 24, {1}, true}, {"static_array-copy-assign", 25, {1}, true}, {"static_array-copy-ctor", 26, {0}, false}, {"static_array-move-ctor", 27, {0}, false}, {"view-fill", 28, {1}, true}, {"view-swap", 29, {1}, true}, {"copy-assign(unequal-alloc)", 30, {1}, true}, {"assign-from-view(unequal-alloc)", 31, {1}, true}, {"move-assign(unequal-alloc)", 32, {1, 2}, false}, {"move-ctor(unequal-alloc)", 33, {0}, false}, {"assign-from-const-view", 34, {1}, true}, {"assign-from-lazy-range", 35, {1, 2}, true}, {"move-ctor(stateful-alloc)", 36, {0}, true},
	};
	for(auto const& sh : shapes) for(auto const& o : ops) for(int pr : o.priors) {
		bool noalloc = o.noalloc_same && (pr != 2 || o.id == 11 || o.id == 20) && !(pr == 0 && o.id == 10);
		if(o.id == 6 || o.id == 36) noalloc = true;
		scenarios.push_back(Scn{std::string(o.n) + (pr == 0 ? (o.id >= 10 && o.id <= 18 ? "(to-empty)" : "") : pr == 1 ? "(same-extents)" : "(other-extents)"), pr, sh, alt_shape(sh), noalloc, o.id});
	}
}

static long next_id = 1;
template<class A> void fill_ids(A& a) { Elem* p = a.data_elements(); for(L k = 0; k < a.num_elements(); ++k) p[k] = Elem(int(next_id++)); }

// validity probe of a surviving array (faults disarmed). Returns empty string if fine.
template<class A> std::string probe(A& x, char const* who) {
	L n = x.num_elements(); if(n < 0) return std::string(who) + ": negative num_elements";
	if(n > 0) {
		Elem* p = x.data_elements(); auto it = ledger().blocks.find(p);
		if(it == ledger().blocks.end()) return std::string(who) + ": extents claim " + std::to_string(n) + " elements but data_elements() is not an outstanding block (dangling or never allocated)";
		if(L(it->second.n) != n) return std::string(who) + ": extents claim " + std::to_string(n) + " elements, block has " + std::to_string(it->second.n);
		L alive = 0; for(L k = 0; k < n; ++k) if(registry().live.count(p + k) && p[k].cookie == Elem::ALIVE) ++alive;
		if(alive != n) return std::string(who) + ": extents claim " + std::to_string(n) + " elements but only " + std::to_string(alive) + " are alive";
		for(L k = 0; k < n; ++k) p[k] = Elem(int(next_id++));  // assignable elements
	}
	return "";
}

// one execution of a scenario with fault kind fk at point k (k == 0: dry run that only counts). Runs inside a forked child.
template<int DD> int run_scn_t(Scn const& s, int fk, long k, long* counts /*out for dry run*/) {
	using Arr = multi::array<Elem, DD, Alloc>; using SArr = multi::static_array<Elem, DD, Alloc>; using OArr = multi::array<int, DD>;
	registry().reset(); ledger().reset(); faults().disarm(); faults().reset_counts(); next_id = 1;
	bool completed = false, caught = false; std::string bad; long allocs_in_op = 0;
	auto K = [&](char const* sym) { return g_key_prefix + ":" + sym; };
	{
		auto ext = make_extensions<DD>(s.shape); auto oext = make_extensions<DD>(s.other);
		std::optional<Arr> A, B, C; std::optional<SArr> SA, SB;
		B.emplace(ext, Elem(7)); fill_ids(*B);                                   // the source
		if(s.prior == 1) { A.emplace(ext, Elem(1)); } else if(s.prior == 2) { A.emplace(oext, Elem(1)); } else if((s.opid >= 10 && s.opid <= 15) || (s.opid >= 16 && s.opid <= 18)) { A.emplace(); }
		if(s.opid == 25) { SA.emplace(ext, Elem(1)); SB.emplace(ext, Elem(2)); } if(s.opid == 26 || s.opid == 27) { SB.emplace(ext, Elem(2)); }
		if(s.opid == 29 || s.opid == 20) { if(!A) A.emplace(ext, Elem(1)); }
		if(s.opid == 32) { A.reset(); A.emplace(s.prior == 1 ? ext : oext, Elem(1), Alloc(1)); B.reset(); B.emplace(ext, Elem(7), Alloc(2)); fill_ids(*B); } if(s.opid == 33 || s.opid == 36) { B.reset(); B.emplace(ext, Elem(7), Alloc(2)); fill_ids(*B); }
		if(s.opid == 30 || s.opid == 31) { A.reset(); A.emplace(ext, Elem(1), Alloc(1)); B.reset(); B.emplace(ext, Elem(7), Alloc(2)); fill_ids(*B); }  // equal extents, unequal non-propagating allocator instances
		std::vector<Elem> vec; vec.reserve(16); for(L i = 0; i < (DD == 1 ? s.shape[0] : 0); ++i) vec.emplace_back(int(next_id++));
		OArr O(ext, 5);
		faults().reset_counts(); if(k > 0) fk_at(fk) = k;
		long a0 = ledger().n_alloc;
		try {
			switch(s.opid) {
			case 1: C.emplace(ext); break;
			case 2: C.emplace(ext, Elem(3)); break;
			case 3: C.emplace(ext, Elem(3), Alloc(0)); break;
			case 4: C.emplace(*B); break;
			case 5: C.emplace(*B, Alloc(0)); break;
			case 6: C.emplace(std::move(*B)); break;
			case 7: C.emplace(B->rotated()); break;
			case 8: if constexpr(DD == 1) { C.emplace(vec.begin(), vec.end()); } else { C.emplace(B->begin(), B->end()); } break;
			case 9: if constexpr(DD == 1) { C.emplace(Arr{Elem(1), Elem(2), Elem(3)}); } else if constexpr(DD == 2) { C.emplace(Arr{{Elem(1), Elem(2)}, {Elem(3), Elem(4)}}); } else { C.emplace(Arr{{{Elem(1), Elem(2)}}, {{Elem(3), Elem(4)}}}); } break;
			case 10: *A = *B; break;
			case 11: *A = std::move(*B); break;
			case 12: if(s.prior == 1) { if constexpr(DD >= 2) { Arr Bt(B->transposed()); faults().reset_counts(); if(k > 0) fk_at(fk) = k; *A = Bt.transposed(); } else { *A = B->sliced(0, B->size()); } } else { *A = B->rotated(); } break;
			case 13: *A = O; break;
			case 14: if constexpr(DD == 1) { if(s.prior == 1) *A = {Elem(1), Elem(2), Elem(3)}; else *A = {Elem(1), Elem(2)}; } else if constexpr(DD == 2) { if(s.prior == 1) *A = {{Elem(1), Elem(2)}, {Elem(3), Elem(4)}}; else *A = {{Elem(1), Elem(2), Elem(3)}}; } else { *A = {{{Elem(1), Elem(2)}}, {{Elem(3), Elem(4)}}}; } break;
			case 15: if constexpr(DD == 1) { A->assign(vec.begin(), vec.end()); } else { A->assign(B->begin(), B->end()); } break;
			case 16: A->reextent(ext); break;
			case 17: A->reextent(ext, Elem(9)); break;
			case 18: std::move(*A).reextent(ext); break;
			case 19: A->clear(); break;
			case 20: if(next_id % 2) swap(*A, *B); else A->swap(*B); break;
			case 21: C.emplace(+*B); break;
			case 22: (*A)() = (*B)(); break;
			case 23: { auto&& bv = (*B)(); (*A)() = std::move(bv); break; }
			case 24: (*A)().elements() = (*B)().elements(); break;
			case 25: *SA = *SB; break;
			case 26: SA.emplace(*SB); break;
			case 27: SA.emplace(std::move(*SB)); break;
			case 28: if constexpr(DD == 1) { (*A)().fill(Elem(4)); } else { auto&& el = (*A)().elements(); std::fill(el.begin(), el.end(), Elem(4)); } break;
			case 29: swap((*A)(), (*B)()); break;
			case 30: *A = *B; break;
			case 31: *A = (*B)(); break;
			case 32: *A = std::move(*B); break;   // non-propagating, unequal allocator instances: the block cannot change hands, the elements are moved
			case 33: C.emplace(std::move(*B), Alloc(1)); break;
			case 36: C.emplace(std::move(*B)); if(C->get_allocator().id != 2) violation("C09:D" + std::to_string(D) + ":move-ctor(stateful-alloc):allocator", "the plain move constructor did not take over the source's allocator"); break;   // plain move construction of an array whose allocator instance is not a default-constructed one: adopts block and allocator, allocates nothing
			case 35: *A = LazyRange<Arr>{&*B}; break;   // a right-hand side that is neither a view nor an array (extensions(), begin(), end() only): the kind of object the lazy BLAS / FFT expressions are
			case 34: if constexpr(DD >= 2) { Arr Bt(B->transposed()); faults().reset_counts(); if(k > 0) fk_at(fk) = k; a0 = ledger().n_alloc; auto const& cv = std::as_const(Bt).transposed(); *A = cv; } else { Arr const& Bc = *B; auto const& cv = Bc.sliced(0, Bc.size()); *A = cv; } break;  // a named read-only view (const_subarray) of equal extents and non-canonical strides
			default: break;
			}
			completed = true;
		} catch(injected_fault const&) { caught = true; } catch(std::exception const& e) { bad = std::string("other exception: ") + e.what(); }
		bool const fired = faults().fired; if(counts) for(int q = 0; q < NFK; ++q) counts[q] = fk_n(q);
		faults().disarm(); allocs_in_op = ledger().n_alloc - a0;
		if(fired && completed) violation(K("exception-swallowed"), "the injected " + std::string(FK[fk]) + " failure #" + std::to_string(k) + " did not reach the caller", false);
		if(!bad.empty()) violation(K("other-exception"), bad, false);
		if(s.no_alloc_expected && allocs_in_op > 0 && s.opid != 12) violation(K("allocated"), "an operation that needs no new storage allocated " + std::to_string(allocs_in_op) + " block(s)", false);
		if(k > 0 && !fired) { /* point not reached in this run (count differs from dry run) */ count("points_not_reached"); }
		// validity of every survivor
		op((s.name + "/probe-survivors").c_str());
		for(auto* x : {&A, &B, &C}) if(*x) { std::string why = probe(**x, x == &A ? "target" : (x == &B ? "source" : "constructed")); if(!why.empty()) { violation(K("survivor-invalid"), why, false); } }
		if(SA) { std::string why = probe(*SA, "static target"); if(!why.empty()) violation(K("survivor-invalid"), why, false); }
		if(SB) { std::string why = probe(*SB, "static source"); if(!why.empty()) violation(K("survivor-invalid"), why, false); }
		// assignable and destructible
		op((s.name + "/assign-to-survivors").c_str());
		for(auto* x : {&A, &B, &C}) if(*x) { Arr fresh(make_extensions<DD>(s.other), Elem(42)); **x = fresh; if((**x).num_elements() != fresh.num_elements()) violation(K("survivor-not-assignable"), "assignment to a survivor did not take", false); }
		op((s.name + "/destroy-survivors").c_str());
		vec.clear();
	}
	op((s.name + "/after-destruction").c_str());
	if(!registry().live.empty()) violation(K("leaked-elements"), std::to_string(registry().live.size()) + " element objects leaked", false);
	if(!ledger().blocks.empty()) violation(K("leaked-blocks"), std::to_string(ledger().blocks.size()) + " block(s) leaked", false);
	(void)caught;
	return 0;
}

static int run_scn(Scn const& s, int fk, long k, long* counts) { return run_scn_t<D>(s, fk, k, counts); }

int main(int argc, char** argv) {
	for(int i = 1; i < argc; ++i) if(std::string(argv[i]) == "--list") { bool th = false; for(int j = 1; j < argc; ++j) if(std::string(argv[j]) == "--thorough") th = true; build_scenarios(th); std::printf("%zu\n", scenarios.size()); return 0; }
	return main_loop(argc, argv, [&](Case& c) {
		static bool init = false; if(!init) { init = true; bool th = false; for(auto& a : st().args) if(a == "--thorough") th = true; build_scenarios(th); }
		if(std::size_t(c.k) >= scenarios.size()) return;
		Scn const& s = scenarios[std::size_t(c.k)];
		describe("D=" + std::to_string(D) + " " + s.name + " shape=" + join(s.shape, "x")); sig_mix(s.name.c_str()); sig_mix(std::uint64_t(s.shape[0] * 16 + s.shape.back()));
		softcfg().sink = [](std::string const&, std::string const& key, std::string const& detail) { std::string sym = key.substr(key.rfind(':') + 1); violation(g_key_prefix + ":" + sym, detail, false); };
		// dry run (in a child as well: the unchanged tree has scenarios that crash even without faults? no — but keep the parent clean)
		long counts[NFK] = {0}; int pfd[2]; if(::pipe(pfd) != 0) return; std::string err;
		g_key_prefix = "C09:D" + std::to_string(D) + ":" + s.name + ":dry-run";
		int rc = fork_run([&] { long cnt[NFK] = {0}; run_scn(s, 0, 0, cnt); raw_write(pfd[1], reinterpret_cast<char const*>(cnt), sizeof cnt); return 0; }, &err);
		::close(pfd[1]); if(::read(pfd[0], counts, sizeof counts) != long(sizeof counts)) { std::memset(counts, 0, sizeof counts); } ::close(pfd[0]);
		if(rc != 0) { violation("C09:D" + std::to_string(D) + ":" + s.name + ":dry-run:died", "scenario dies even without an injected fault: rc=" + std::to_string(rc) + " " + err.substr(0, 400), false); return; }
		long total = 0;
		for(int fk = 0; fk < NFK; ++fk) for(long k = 1; k <= counts[fk]; ++k) {
			++total; g_key_prefix = "C09:D" + std::to_string(D) + ":" + s.name + ":" + FK[fk]; op((s.name + ":" + FK[fk]).c_str());
			std::string e2; int rc2 = fork_run([&] { return run_scn(s, fk, k, nullptr); }, &e2);
			count(std::string("injections:") + FK[fk]);
			if(rc2 != 0) {  // child died: terminate (exception crossed a noexcept), sanitizer report (double free, use after free), assertion ...
				std::string sym = "died(rc=" + std::to_string(rc2) + ")";
				if(e2.find("why=terminate") != std::string::npos) sym = "terminate(exception-did-not-reach-caller)";
				else if(e2.find("AddressSanitizer") != std::string::npos) { auto p = e2.find("AddressSanitizer: "); sym = "asan:" + e2.substr(p + 18, e2.find_first_of(" \n", p + 18) - p - 18); }
				else if(e2.find("VKASSERT") != std::string::npos) sym = "assert";
				else if(e2.find("LeakSanitizer") != std::string::npos) sym = "lsan:leak";
				std::string ctx; { auto p = e2.find("ctx="); if(p != std::string::npos) ctx = e2.substr(p + 4, e2.find('\n', p) - p - 4); }
				bool in_probe = ctx.find('/') != std::string::npos;
				// a death while probing/assigning/destroying the survivors means a survivor was left invalid; a death inside the operation keeps its own symptom
				std::string key = g_key_prefix + ":" + (in_probe ? std::string("survivor-invalid") : sym);
				violation(key, "injection " + std::string(FK[fk]) + " #" + std::to_string(k) + " of " + std::to_string(counts[fk]) + ": child " + sym + " in [" + ctx + "] " + e2.substr(0, 300), false);
			}
		}
		count("injection_points", total); count("scenarios");
		nontrivial(total > 0);
		describe(" injections=" + std::to_string(total));
	});
}
