// C02 — iterator / flat-element-range laws: integer position model, random walks over iterator variables,
// dereference identity against the table model after every step (first-divergence attribution).
#define VK_MAIN
#include "../kit/viewprog.hpp"
using namespace vk;

static GenCfg cfg;
static int WALK = 30;

// generic walk over K=3 iterator variables of type It. `chk(it, pos, why)` verifies that a dereferenceable iterator at model
// position pos designates what the model says. Positions stay inside [0,size].
template<class It, class Chk> void walk(char const* fam, It const& first, It const& last, L size, Rng& g, Chk&& chk) {
	std::string const K = std::string("C02:") + fam + ":";
	op((std::string(fam) + ":end-begin").c_str());
	if(last - first != size) violation(K + "end-minus-begin", "end()-begin()=" + std::to_string(last - first) + " size=" + std::to_string(size));
	if((first == last) != (size == 0)) violation(K + "begin-eq-end", "begin()==end() inconsistent with size");
	if(size == 0) return;
	std::vector<It> it{first, first, first}; std::vector<L> pos{0, 0, 0};
	bool back = false, assigned = false;
	auto verify = [&](char const* after) {
		for(std::size_t i = 0; i < 3; ++i) if(pos[i] >= 0 && pos[i] < size) chk(it[i], pos[i], K + after);
	};
	for(int s = 0; s < WALK; ++s) {
		std::size_t a = std::size_t(g.below(3)), b = std::size_t(g.below(3)); int const o = int(g.below(14)); L const pa = pos[a], pb = pos[b];
		char const* name = "";
		switch(o) {
		case 0: if(pa < size) { name = "++"; op((std::string(fam) + ":++").c_str()); It& r = ++it[a]; ++pos[a]; if(&r != &it[a]) violation(K + "++:returns-self", "pre-increment does not return *this"); } break;
		case 1: if(pa > 0) { name = "--"; op((std::string(fam) + ":--").c_str()); It& r = --it[a]; --pos[a]; back = true; if(&r != &it[a]) violation(K + "--:returns-self", "pre-decrement does not return *this"); } break;
		case 2: if(pa < size) { name = "post++"; op((std::string(fam) + ":post++").c_str()); It old = it[a]++; ++pos[a]; if(old - first != pa) violation(K + "post++:old-value", "it++ does not return the old position"); } break;
		case 3: if(pa > 0) { name = "post--"; op((std::string(fam) + ":post--").c_str()); It old = it[a]--; --pos[a]; back = true; if(old - first != pa) violation(K + "post--:old-value", "it-- does not return the old position"); } break;
		case 4: { L n = g.in(-pa, size - pa); name = "+="; op((std::string(fam) + ":+=").c_str()); it[a] += n; pos[a] += n; if(n < 0) back = true; } break;
		case 5: { L n = g.in(pa - size, pa); name = "-="; op((std::string(fam) + ":-=").c_str()); it[a] -= n; pos[a] -= n; if(n > 0) back = true; } break;
		case 6: { L n = g.in(-pb, size - pb); name = "=b+n"; op((std::string(fam) + ":=b+n").c_str()); it[a] = it[b] + n; pos[a] = pb + n; assigned = true; } break;
		case 7: { L n = g.in(pb - size, pb); name = "=b-n"; op((std::string(fam) + ":=b-n").c_str()); it[a] = it[b] - n; pos[a] = pb - n; assigned = true; back = true; } break;
		case 8: { name = "assign"; op((std::string(fam) + ":assign").c_str()); it[a] = it[b]; pos[a] = pb; assigned = true; } break;
		case 9: { name = "copy"; op((std::string(fam) + ":copy").c_str()); It c{it[b]}; if(!(c == it[b])) violation(K + "copy:eq", "copy-constructed iterator != original"); if(pb < size) chk(c, pb, K + "copy"); it[a] = c; pos[a] = pb; assigned = true; } break;
		case 10: { name = "compare"; op((std::string(fam) + ":compare").c_str());
			if(it[a] - it[b] != pa - pb) violation(K + "difference", "a-b=" + std::to_string(it[a] - it[b]) + " positions " + std::to_string(pa) + "," + std::to_string(pb));
			if(bool(it[a] < it[b]) != (pa < pb)) violation(K + "less", "a<b disagrees with positions " + std::to_string(pa) + "," + std::to_string(pb));
			if(bool(it[a] == it[b]) != (pa == pb)) violation(K + "equal", "a==b disagrees with positions");
			if(bool(it[a] != it[b]) != (pa != pb)) violation(K + "not-equal", "a!=b disagrees with positions");
			if(bool(it[a] <= it[b]) != (pa <= pb)) violation(K + "less-equal", "a<=b disagrees with positions");
			if(bool(it[a] > it[b]) != (pa > pb)) violation(K + "greater", "a>b disagrees with positions");
			if(bool(it[a] >= it[b]) != (pa >= pb)) violation(K + "greater-equal", "a>=b disagrees with positions");
			if(bool(it[a] < it[b]) != bool(it[b] - it[a] > 0)) violation(K + "less-vs-difference", "it<jt iff jt-it>0 fails");
		} break;
		case 11: { L n = g.in(-pa, size - 1 - pa); name = "[]"; op((std::string(fam) + ":[]").c_str()); It t = it[a] + n; chk(t, pa + n, K + "plus-n"); if(!(t - n == it[a])) violation(K + "plus-minus-n", "(it+n)-n != it"); if((it[a] + n) - it[a] != n) violation(K + "plus-n-minus-it", "(it+n)-it != n"); } break;
		case 12: if(pa < size) { name = "inc-dec"; op((std::string(fam) + ":inc-dec").c_str()); It t = it[a]; ++t; --t; if(!(t == it[a])) violation(K + "inc-dec:eq", "--(++it) != it"); chk(t, pa, K + "inc-dec"); } break;
		default: if(pa > 0) { name = "dec-inc"; op((std::string(fam) + ":dec-inc").c_str()); It t = it[a]; --t; ++t; back = true; if(!(t == it[a])) violation(K + "dec-inc:eq", "++(--it) != it"); if(pa < size) chk(t, pa, K + "dec-inc"); } break;
		}
		if(*name) { sig_mix(std::uint64_t(o)); verify(name); count(std::string("walk:") + name);
			for(std::size_t i = 0; i < 3; ++i) if(it[i] - first != pos[i]) violation(K + name + ":position", "iterator position " + std::to_string(it[i] - first) + " model " + std::to_string(pos[i])); }
	}
	nontrivial(back && assigned && size >= 2);
}

struct C02Vis {
	int const* base; L rootn; Rng* g;
	template<class V> void at(V const&, MV const&, char const*) {}

	template<class V> void final(V&& v, MV const& m) {
		constexpr int D = rank_of<V>;
		if(m.has_zero()) { if((v.end() - v.begin()) != v.size()) violation("C02:lead:empty:end-minus-begin", "end()-begin() != size() on an empty view");
			// the flat element range of a view without elements (empty leading OR empty inner extent): begin() and end() can be formed, delimit 0 positions and compare equal; it +- 0 is the identity
			op("elements:empty"); { auto&& els = v.elements(); auto b = els.begin(); auto e = els.end(); if(!(b == e) || (e - b) != 0 || els.size() != 0) violation("C02:elements:empty:begin-end", "elements() of a view without elements does not have begin() == end(), end() - begin() == 0, size() == 0");
				auto b2 = b; b2 += 0; if(!(b2 == b) || !((b + 0) == e)) violation("C02:elements:empty:plus-zero", "it + 0 is not the identity on the element range of a view without elements"); auto&& cels = std::as_const(v).elements(); if(!(cels.begin() == cels.end())) violation("C02:elements:empty:const-begin-end", "const elements() of a view without elements: begin() != end()"); count("empty-element-ranges"); }
			return; }
		L const s0 = m.size[0]; L const N = m.n();
		auto const& cv = v;
		// ---- leading iterators
		auto chk_lead = [&](auto const& it, L p, std::string const& K) {
			if constexpr(D == 1) { if(std::addressof(*it) != base + m.off[std::size_t(p)]) violation(K + ":deref", "*it at position " + std::to_string(p) + " designates another element"); count("derefs"); }
			else { auto&& sub = *it; MV sm = m_index(m, p);
				if(tuple_to_vec(sub.sizes()) != sm.size) violation(K + ":deref-sizes", "*(begin()+n) has other sizes than v[n]");
				L const n = sm.n(); std::vector<L> ix; for(L k : {L(0), n / 2, n - 1}) { sm.unlin(k, ix); if(std::addressof(brk(sub, ix)) != base + sm.off[std::size_t(k)]) violation(K + ":deref", "*(begin()+" + std::to_string(p) + ") is not the same sub-view as v[" + std::to_string(p) + "]"); } count("derefs"); }
		};
		walk(D == 1 ? "lead1" : "leadN", v.begin(), v.end(), s0, *g, chk_lead);
		walk(D == 1 ? "clead1" : "cleadN", cv.cbegin(), cv.cend(), s0, *g, chk_lead);
		{ op("lead:const-vs-mutable"); auto i = v.begin(); auto c = cv.cbegin(); L n = g->below(s0 + 1); i += n; c += n;
			if(!(c == i)) violation("C02:lead:const-eq-mutable", "const_iterator and iterator at one position compare unequal");
			decltype(c) c2 = i; if(!(c2 == c)) violation("C02:lead:const-from-mutable", "const_iterator converted from iterator differs"); }
		{ op("lead:index"); auto b = v.begin(); L n = g->below(s0); chk_lead(b + n, n, "C02:lead:begin-plus-n");
			if constexpr(D == 1) { if(std::addressof(b[n]) != base + m.off[std::size_t(n)]) violation("C02:lead:subscript", "it[n] != *(it+n)"); if(std::addressof(cv.front()) != base + m.off[0] || std::addressof(cv.back()) != base + m.off[std::size_t(N - 1)]) violation("C02:lead:front-back", "front()/back() designate other elements"); }
			else { auto&& sub = b[n]; MV sm = m_index(m, n); std::vector<L> ix; sm.unlin(sm.n() - 1, ix); if(std::addressof(brk(sub, ix)) != base + sm.off[std::size_t(sm.n() - 1)]) violation("C02:lead:subscript", "it[n] != *(it+n)");
				auto&& f = cv.front(); auto&& bk = cv.back(); MV fm = m_index(m, 0), bm = m_index(m, s0 - 1); std::vector<L> z(std::size_t(D - 1), 0);
				if(std::addressof(brk(f, z)) != base + fm.off[0] || std::addressof(brk(bk, z)) != base + bm.off[0]) violation("C02:lead:front-back", "front()/back() designate other sub-views"); } }
		// ---- flat element ranges (canonical order whatever the layout)
		auto chk_el = [&](auto const& it, L p, std::string const& K) { if(std::addressof(*it) != base + m.off[std::size_t(p)]) violation(K + ":deref", "elements() iterator at position " + std::to_string(p) + " designates root offset " + std::to_string(std::addressof(*it) - base) + ", model says " + std::to_string(m.off[std::size_t(p)])); count("derefs"); };
		{ auto&& els = v.elements(); walk("elements", els.begin(), els.end(), N, *g, chk_el);
			auto&& cels = cv.elements(); walk("celements", cels.begin(), cels.end(), N, *g, chk_el);
			op("elements:index"); L k = g->below(N);
			if(std::addressof(els[k]) != base + m.off[std::size_t(k)]) violation("C02:elements:range-subscript", "elements()[k] is not the k-th canonical element");
			if(std::addressof(els.begin()[k]) != base + m.off[std::size_t(k)]) violation("C02:elements:subscript", "elements().begin()[k] is not the k-th canonical element");
			{ auto j = els.begin(); j += g->below(N); L pj = j - els.begin(); L n2 = g->in(-pj, N - 1 - pj); if(std::addressof(j[n2]) != base + m.off[std::size_t(pj + n2)]) violation("C02:elements:subscript-offset", "it[n] != *(it+n) for a non-begin iterator"); }
			if(std::addressof(cels.front()) != base + m.off[0]) violation("C02:elements:front", "elements().front() is not the first canonical element");
			if(std::addressof(cels.back()) != base + m.off[std::size_t(N - 1)]) violation("C02:elements:back", "elements().back() is not the last canonical element");
			if(els.size() != N) violation("C02:elements:size", "elements().size() != num_elements()");
			// the same element range of a view whose index bases are not 0: positions are independent of the index bases
			{ op("elements:re-based"); L const r = g->in(-3, 5); L const k2 = g->below(N); auto chk_rb = [&](auto&& w, char const* what) { auto&& wels = w.elements();
					if(std::addressof(wels[k2]) != base + m.off[std::size_t(k2)]) violation(std::string("C02:elements:re-based:range-subscript:") + what, "elements()[k] of a re-based view designates root offset " + std::to_string(std::addressof(wels[k2]) - base) + ", the k-th canonical element is at " + std::to_string(m.off[std::size_t(k2)]));
					auto it = wels.begin(); it += k2; if(std::addressof(*it) != base + m.off[std::size_t(k2)]) violation(std::string("C02:elements:re-based:iterator:") + what, "elements().begin() + k of a re-based view is not the k-th canonical element");
					if(std::addressof(wels.begin()[k2]) != base + m.off[std::size_t(k2)]) violation(std::string("C02:elements:re-based:subscript:") + what, "elements().begin()[k] of a re-based view is not the k-th canonical element");
					L q = 0; for(auto i2 = wels.begin(); !(i2 == wels.end()) && q <= N; ++i2, ++q) { if(q < N && std::addressof(*i2) != base + m.off[std::size_t(q)]) { violation(std::string("C02:elements:re-based:walk:") + what, "++ over elements() of a re-based view leaves canonical order at step " + std::to_string(q)); break; } }
					if(q != N) violation(std::string("C02:elements:re-based:count:") + what, "elements() of a re-based view has " + std::to_string(q) + " steps, not num_elements()"); count("re-based-element-ranges"); };
				chk_rb(v.reindexed(r), "leading");
				if constexpr(D >= 2) { chk_rb(v.rotated().reindexed(r).unrotated(), "second"); chk_rb(v.reindexed(r, -r + 1), "both"); } }
			// an iterator bound to ANOTHER range of the same static type (other extents) is assigned from an iterator of this range, then moved
			if(s0 >= 2) { op("elements:cross-range-assign"); auto&& w = v.sliced(0, s0 - 1); auto&& wels = w.elements(); if constexpr(std::is_same_v<decltype(wels.begin()), decltype(els.begin())>) {
				auto x = wels.begin(); L const pw = g->below(wels.size() + 1); x += pw; L const pv = g->below(N); auto src = els.begin(); src += pv; x = src;
				if(!(x == src)) violation("C02:elements:cross-range-assign:eq", "an iterator assigned from another range's iterator does not compare equal to it");
				if(std::addressof(*x) != base + m.off[std::size_t(pv)]) violation("C02:elements:cross-range-assign:deref", "assigned iterator designates another element");
				L const n2 = g->in(-pv, N - 1 - pv); auto y = x; y += n2; if(std::addressof(*y) != base + m.off[std::size_t(pv + n2)]) violation("C02:elements:cross-range-assign:+=", "after assignment across ranges, it += n designates another element than position p+n");
				if(pv + 1 < N) { auto z = x; ++z; if(std::addressof(*z) != base + m.off[std::size_t(pv + 1)]) violation("C02:elements:cross-range-assign:++", "after assignment across ranges, ++it designates another element than position p+1"); }
				if(pv > 0) { auto z = x; --z; if(std::addressof(*z) != base + m.off[std::size_t(pv - 1)]) violation("C02:elements:cross-range-assign:--", "after assignment across ranges, --it designates another element than position p-1"); }
				if(std::addressof(x[n2]) != base + m.off[std::size_t(pv + n2)]) violation("C02:elements:cross-range-assign:[]", "after assignment across ranges, it[n] designates another element");
				count("cross_range_assignments"); } }
			op("elements:const-vs-mutable"); auto i = els.begin(); auto c = cels.begin(); i += k; c += k; decltype(c) c2 = i; if(!(c2 == c)) violation("C02:elements:const-eq-mutable", "const and mutable element iterators at one position compare unequal");
		}
		count("views_walked");
		// a view of dimensionality >= 2 whose LEADING stride is negative: reachable (assertions enabled) through a 1-D negative-stride slice that is then partitioned
		if constexpr(D == 1) { L const n1 = s0 - 1; L const kk = (n1 >= 2 && n1 % 2 == 0) ? 2 : ((n1 >= 3 && n1 % 3 == 0) ? 3 : 0);
			if(kk != 0 && g->chance(1, 2)) { op("negative-leading-stride"); describe(" + sliced(" + std::to_string(s0 - 1) + ",0,-1).partitioned(" + std::to_string(kk) + ")"); count("negative-leading-stride-views"); final(v.sliced(s0 - 1, 0, -1).partitioned(kk), m_partitioned(m_sliced_neg(m, s0 - 1, 0, 1), kk)); } }
	}
};

template<int D> void one(Case& c, Prog const& p) {
	auto exts = make_extensions<D>(p.root); MV m = MV::root(p.root);
	describe("D=" + std::to_string(D) + " root=" + m.shape() + ":");
	sig_mix(std::uint64_t(D)); { std::vector<int> cls; for(auto s : p.root) cls.push_back(int(std::min<L>(s, 3))); std::sort(cls.begin(), cls.end()); for(int x : cls) sig_mix(std::uint64_t(x)); }
	multi::array<int, D> A(exts); { int q = 0; for(auto& e : A.elements()) e = q++; }
	C02Vis vis{A.data_elements(), m.n(), &c.rng}; Interp<C02Vis> I{vis, p};
	I.run(A(), m, 0, "root");
}

int main(int argc, char** argv) {
	return main_loop(argc, argv, [&](Case& c) {
		static bool init = false; if(!init) { init = true; auto& a = st().args;
			for(std::size_t i = 0; i < a.size(); ++i) { auto val = [&] { return i + 1 < a.size() ? std::atol(a[i + 1].c_str()) : 0; };
				if(a[i] == "--maxext") cfg.max_ext = int(val()); else if(a[i] == "--maxops") cfg.max_ops = int(val()); else if(a[i] == "--zero") cfg.zero_pct = int(val()); else if(a[i] == "--walk") WALK = int(val()); } }
#ifdef C02_D
		Prog p = gen_prog(c.rng, cfg, C02_D); one<C02_D>(c, p);
#else
		Prog p = gen_prog(c.rng, cfg);
		switch(p.root.size()) { case 1: one<1>(c, p); break; case 2: one<2>(c, p); break; case 3: one<3>(c, p); break; default: one<4>(c, p); break; }
#endif
	});
}
