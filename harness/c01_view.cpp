// C01 — view algebra: table-model oracle observed after every operation of random view programs.
#define VK_MAIN
#include "../kit/viewprog.hpp"
#include <boost/multi/array_ref.hpp>
using namespace vk;

static GenCfg cfg;
// -DC01_DIRECT: apply the first operation directly on the root object (array&, array const&, array_ref&, static_array&)
#ifdef C01_DIRECT
#define ROOTVIEW(X) X
#else
#define ROOTVIEW(X) X()
#endif

template<class V> static auto can_reindex(int) -> decltype(std::declval<V&>().reindexed(L{}), std::true_type{}); template<class V> static std::false_type can_reindex(...);
struct C01Vis {
	int const* base; L rootn; L elems_compared = 0; int effective_ops = 0;

	template<class V> void at(V const& v, MV const& m, char const* opn) {
		constexpr int D = rank_of<V>;
		std::string const K = std::string("C01:") + opn + ":";
		if(std::strcmp(opn, "skip") == 0) return;
		if(std::strcmp(opn, "root") != 0 && std::strcmp(opn, "paren") != 0) ++effective_ops;
		if(m.D() != D) { violation(K + "rank", "model rank " + std::to_string(m.D()) + " vs view rank " + std::to_string(D)); }
		auto const rs = tuple_to_vec(v.sizes());
		if(m.has_zero()) {  // weak oracle for empty shapes: self-consistency only
			count("empty_views");
			if(v.num_elements() != 0) violation(K + "empty:num_elements", "num_elements()=" + std::to_string(v.num_elements()) + " for empty model " + m.shape());
			if(v.size() != rs[0]) violation(K + "empty:size", "size() != get<0>(sizes())");
			if(v.is_empty() != (v.size() == 0)) violation(K + "empty:is_empty", "is_empty() inconsistent with size()");
			if(v.size() == 0 && !(v.begin() == v.end())) violation(K + "empty:begin-end", "begin() != end() for size 0");
			op("elements-of-empty");
			if(v.elements().size() != 0) violation(K + "empty:elements-size", "elements().size() != 0");
			if(!(v.elements().begin() == v.elements().end())) violation(K + "empty:elements-begin-end", "elements().begin() != elements().end()");
			return;
		}
		if(rs != m.size) violation(K + "sizes", "sizes()=" + join(rs, "x") + " model=" + m.shape());
		if(v.num_elements() != m.n()) violation(K + "num_elements", std::to_string(v.num_elements()) + " vs " + std::to_string(m.n()));
		if(v.size() != m.size[0]) violation(K + "size", std::to_string(v.size()) + " vs " + std::to_string(m.size[0]));
		if(v.is_empty()) violation(K + "is_empty", "is_empty() true for non-empty model");
		{ std::vector<L> fs, ls; std::apply([&](auto const&... x) { (fs.push_back(x.first()), ...); (ls.push_back(x.last()), ...); }, v.extensions().base());
			for(int d = 0; d < D; ++d) if(fs[std::size_t(d)] != 0 || ls[std::size_t(d)] != m.size[std::size_t(d)]) violation(K + "extensions", "extension " + std::to_string(d) + " = [" + std::to_string(fs[std::size_t(d)]) + "," + std::to_string(ls[std::size_t(d)]) + ") model size " + std::to_string(m.size[std::size_t(d)])); }
		L const N = m.n(); std::vector<L> ix(std::size_t(D), 0);
		auto&& els = v.elements(); auto eit = els.begin();
		if(els.size() != N) violation(K + "elements-size", std::to_string(els.size()) + " vs " + std::to_string(N));
		auto home = v.home();
		for(L k = 0; k < N; ++k, ++eit) {
			m.unlin(k, ix); L const want = m.off[std::size_t(k)];
			int const* p1 = std::addressof(brk(v, ix));
			L const got = p1 - base;
			if(got < 0 || got >= rootn) violation(K + "outside-root", "bracket access at k=" + std::to_string(k) + " designates offset " + std::to_string(got) + " outside [0," + std::to_string(rootn) + ")");
			if(got != want) violation(K + "bracket-offset", "index " + join(ix) + " designates root offset " + std::to_string(got) + ", model says " + std::to_string(want));
			if(*p1 != int(want)) violation(K + "value", "value read differs from root fill");
			int const* p2 = std::addressof(call_ix(v, ix)); if(p2 != p1) violation(K + "call-vs-bracket", "v(i...) != v[i]... at " + join(ix));
			int const* p3 = std::addressof(apply_ix(v, ix)); if(p3 != p1) violation(K + "apply-vs-bracket", "apply(tuple) != v[i]... at " + join(ix));
			int const* p4 = cur_addr<D>(home, ix); if(p4 != p1) violation(K + "cursor-vs-bracket", "home()[i]... != v[i]... at " + join(ix));
			{ auto tup = std::apply([](auto... q) { return std::make_tuple(q...); }, [&] { std::array<L, std::size_t(D)> a{}; for(int d = 0; d < D; ++d) a[std::size_t(d)] = ix[std::size_t(d)]; return a; }());
				int const* p4b = std::apply([&](auto... q) { return std::addressof(home(q...)); }, tup); if(p4b != p1) violation(K + "cursor-call-vs-bracket", "home()(i...) != v[i]... at " + join(ix));
				auto c2 = home; c2 += tup; int const* p4c = std::addressof(*c2); if(p4c != p1) violation(K + "cursor-advance-vs-bracket", "*(home() += tuple) != v[i]... at " + join(ix)); }
			int const* p5 = std::addressof(*eit); if(p5 != p1) violation(K + "elements-iter", "k-th elements() position != k-th canonical tuple, k=" + std::to_string(k));
			int const* p6 = std::addressof(els[k]); if(p6 != p1) violation(K + "elements-index", "elements()[k] != k-th canonical tuple, k=" + std::to_string(k));
			++elems_compared;
		}
		if(!(eit == els.end())) violation(K + "elements-end", "elements iterator after N increments != end()");
		// strides agree with address differences of neighbouring tuples
		std::vector<L> st; { auto sa = v.strides().to_array(); st.assign(sa.begin(), sa.end()); } std::vector<L> z(std::size_t(D), 0);
		for(int d = 0; d < D; ++d) if(m.size[std::size_t(d)] >= 2) { auto e = z; e[std::size_t(d)] = 1; L diff = m.off[std::size_t(m.lin(e))] - m.off[0];
			if(st[std::size_t(d)] != diff) violation(K + "strides", "strides()[" + std::to_string(d) + "]=" + std::to_string(st[std::size_t(d)]) + " but neighbouring elements are " + std::to_string(diff) + " apart"); }
		count("elements_compared", N); count("views_checked");
	}

	template<class V> void final(V&& v, MV const& m) {
		constexpr int D = rank_of<V>;
		if(m.has_zero()) return;
		if constexpr(D < MAXD) {  // broadcasted: designates the source at every index of the added leading dimension
			op("broadcasted"); auto&& b = v.broadcasted(); std::vector<L> ix(std::size_t(D), 0); L const N = std::min<L>(m.n(), 48);
			for(L i : {L(0), L(1), L(2), L(5)}) { auto&& bi = b[i];
				if(tuple_to_vec(bi.sizes()) != m.size) violation("C01:broadcasted:sizes", "broadcasted()[i] sizes differ from source");
				for(L k = 0; k < N; ++k) { m.unlin(k, ix); if(std::addressof(brk(bi, ix)) != base + m.off[std::size_t(k)]) violation("C01:broadcasted:element", "broadcasted()[" + std::to_string(i) + "] designates another element at " + join(ix)); } }
			// the broadcast dimension moved inwards (README: outer products through ~(a.broadcasted())): rotated() puts it last, so that for D == 1 the innermost 1-D view has stride 0
			{ op("broadcasted().rotated()"); auto&& br = v.broadcasted().rotated(); for(L k = 0; k < N; ++k) { m.unlin(k, ix); for(L i : {L(0), L(3)}) { std::vector<L> jx = ix; jx.push_back(i);
				if(std::addressof(brk(br, jx)) != base + m.off[std::size_t(k)]) { violation("C01:broadcasted:rotated:element", "broadcasted().rotated() designates another element at " + join(jx)); break; } } } count("op:broadcasted().rotated()"); }
			if constexpr(D >= 1) { op("~broadcasted()"); auto&& bt = v.broadcasted().transposed(); for(L k = 0; k < N; ++k) { m.unlin(k, ix); for(L i : {L(0), L(4)}) { std::vector<L> jx = ix; jx.insert(jx.begin() + 1, i);
				if(std::addressof(brk(bt, jx)) != base + m.off[std::size_t(k)]) { violation("C01:broadcasted:transposed:element", "(~broadcasted()) designates another element at " + join(jx)); break; } } } count("op:~broadcasted()"); }
			count("op:broadcasted");
		}
		if constexpr(D >= 1) {  // the leading extension as a range of indices: for(auto i : v.extension()) visits first, first+1, ..., last-1 (README: index loops)
			op("extension-range"); auto const ext = v.extension(); L const f = L(ext.first()); L n = 0; for(auto i : ext) { if(L(i) != f + n) { violation("C01:extension:iteration", "iterating extension() yields " + std::to_string(L(i)) + " at step " + std::to_string(n) + ", expected " + std::to_string(f + n)); break; } ++n; }
			if(n != m.size[0]) violation("C01:extension:iteration-count", "iterating extension() visits " + std::to_string(n) + " indices, the view has " + std::to_string(m.size[0]));
			if(L(ext.end() - ext.begin()) != m.size[0] || L(ext.size()) != m.size[0] || L(ext.last()) - f != m.size[0]) violation("C01:extension:size", "extension() end - begin / size() / last - first disagree with the view's size");
			if(m.size[0] > 0) { L const k = m.size[0] - 1; if(L(ext[k]) != f + k) violation("C01:extension:subscript", "extension()[k] != first + k"); auto it = ext.begin(); it += k; if(L(*it) != f + k) violation("C01:extension:+=", "extension().begin() += k does not yield first + k");
				auto e2 = ext.end(); --e2; if(L(*e2) != f + k) violation("C01:extension:--", "--extension().end() does not yield last - 1"); if(!ext.contains(f + k) || ext.contains(f + k + 1) || ext.contains(f - 1)) violation("C01:extension:contains", "contains() disagrees with [first, last)"); }
			count("op:extension-range");
		}
		if constexpr(D >= 1 && decltype(can_reindex<std::remove_reference_t<V>>(0))::value) {  // (the 1-D specialisation declares reindexed() for non-const objects only; those are skipped)  the "all" placeholder on a dimension whose first index is not 0 (README: S(multi::_) is S(S.extension())): same extension, same elements
			op("call(_):re-based"); std::vector<L> ix(std::size_t(D), 0); L const N = std::min<L>(m.n(), 48);
			for(L r : {L(-3), L(2)}) { auto&& w = v.reindexed(r); auto&& wa = w(multi::_);
				if(L(wa.extension().first()) != r || L(wa.size()) != m.size[0]) violation("C01:call(_):re-based:extension", "w(_) of a view whose leading extension is [" + std::to_string(r) + "," + std::to_string(r + m.size[0]) + ") reports [" + std::to_string(L(wa.extension().first())) + "," + std::to_string(L(wa.extension().last())) + ")");
				else for(L k = 0; k < N; ++k) { m.unlin(k, ix); std::vector<L> jx = ix; jx[0] += r; if(std::addressof(brk(wa, jx)) != base + m.off[std::size_t(k)]) { violation("C01:call(_):re-based:element", "w(_) designates another element at " + join(jx)); break; } }
				if constexpr(D >= 2) { for(L j : {L(0), m.size[1] - 1}) { auto&& wc = w(multi::_, j);
					if(L(wc.extension().first()) != r || L(wc.size()) != m.size[0]) { violation("C01:call(_,j):re-based:extension", "w(_, j) of a view whose leading extension starts at " + std::to_string(r) + " reports [" + std::to_string(L(wc.extension().first())) + "," + std::to_string(L(wc.extension().last())) + ")"); continue; }
					for(L i = 0; i < std::min<L>(m.size[0], 6); ++i) { std::vector<L> ex(std::size_t(D), 0); ex[0] = i; ex[1] = j; std::vector<L> jx(std::size_t(D - 1), 0); jx[0] = r + i;
						if(std::addressof(brk(wc, jx)) != base + m.off[std::size_t(m.lin(ex))]) { violation("C01:call(_,j):re-based:element", "w(_, j)[i] designates another element than w[i][j]"); break; } } }
					if(m.size[0] >= 2) { auto&& wl = w(r + 1 <= multi::_, 0); std::vector<L> ex(std::size_t(D), 0); ex[0] = 1; std::vector<L> jx(std::size_t(D - 1), 0); jx[0] = L(wl.extension().first());  // (a range-sliced view starts at the parent's first index: only size and element identity are prescribed)
						if(L(wl.size()) != m.size[0] - 1) violation("C01:call(k<=_,j):re-based:extension", "w(first+1 <= _, 0) does not have size() - 1 elements"); else if(std::addressof(brk(wl, jx)) != base + m.off[std::size_t(m.lin(ex))]) violation("C01:call(k<=_,j):re-based:element", "the first element of w(first+1 <= _, 0) is not w[first+1][0]"); }
					{ auto&& we = w(r + m.size[0] + 2 <= multi::_, 0); auto&& wf = w(multi::_ < r - 2, 0);  // half-open selections that lie entirely outside the extension select nothing: an EMPTY view, never a negative size
						if(L(we.size()) != 0 || !we.is_empty() || L(wf.size()) != 0 || !wf.is_empty() || we.num_elements() != 0) violation("C01:call(disjoint half-open range):not-empty", "w(last+2 <= _, 0) / w(_ < first-2, 0) report sizes " + std::to_string(L(we.size())) + " / " + std::to_string(L(wf.size())) + " instead of 0"); count("op:call(disjoint half-open range)"); }
					{ auto&& wu = w(multi::_ < r + 1, 0); if(L(wu.size()) != 1 || L(wu.extension().first()) != r) violation("C01:call(_<n,j):re-based:extension", "w(_ < first+1, 0) is not the one-element range [first, first+1)"); } }
			}
			count("op:call(_):re-based");
		}
		nontrivial(effective_ops >= 1 && elems_compared >= 1);
	}
};

template<int D> void one(Case& c, Prog const& p) {
	auto exts = make_extensions<D>(p.root); MV m = MV::root(p.root);
	describe("D=" + std::to_string(D) + " root=" + m.shape());
	sig_mix(std::uint64_t(D)); { std::vector<int> cls; for(auto s : p.root) cls.push_back(int(std::min<L>(s, 3))); std::sort(cls.begin(), cls.end()); for(int x : cls) sig_mix(std::uint64_t(x)); }
	int const rootkind = int(c.rng.below(4)); sig_mix(std::uint64_t(rootkind));
	L const G = 16; L const n = m.n();
	auto fill = [&](auto& A) { int q = 0; for(auto& e : A.elements()) e = q++; };
	switch(rootkind) {
	case 0: { describe(" array:"); multi::array<int, D> A(exts); fill(A); C01Vis vis{A.data_elements(), n}; Interp<C01Vis> I{vis, p};
		I.run(ROOTVIEW(A), m, 0, "root"); break; }
	case 1: { describe(" array const:"); multi::array<int, D> A0(exts); fill(A0); auto const& A = A0; C01Vis vis{A.data_elements(), n}; Interp<C01Vis> I{vis, p};
		I.run(ROOTVIEW(A), m, 0, "root"); break; }
	case 2: { describe(" array_ref:"); std::vector<int> buf(std::size_t(n + 2 * G), -7); for(L i = 0; i < n; ++i) buf[std::size_t(G + i)] = int(i);
		multi::array_ref<int, D> R(exts, buf.data() + G); C01Vis vis{buf.data() + G, n}; Interp<C01Vis> I{vis, p};
		I.run(ROOTVIEW(R), m, 0, "root"); break; }
	default: { describe(" static_array:"); multi::static_array<int, D> A(exts); fill(A); C01Vis vis{A.data_elements(), n}; Interp<C01Vis> I{vis, p};
		I.run(ROOTVIEW(A), m, 0, "root"); break; }
	}
}

int main(int argc, char** argv) {
	return main_loop(argc, argv, [&](Case& c) {
		static bool init = false; if(!init) { init = true; auto& a = st().args;
			for(std::size_t i = 0; i < a.size(); ++i) { auto val = [&] { return i + 1 < a.size() ? std::atol(a[i + 1].c_str()) : 0; };
				if(a[i] == "--maxext") cfg.max_ext = int(val()); else if(a[i] == "--maxops") cfg.max_ops = int(val()); else if(a[i] == "--zero") cfg.zero_pct = int(val()); else if(a[i] == "--maxd") cfg.maxD = int(val()); } }
#ifdef C01_D  // one root dimensionality per TU keeps compile time down (TUs are built in parallel)
		Prog p = gen_prog(c.rng, cfg, C01_D); one<C01_D>(c, p);
#else
		Prog p = gen_prog(c.rng, cfg);
		switch(p.root.size()) { case 1: one<1>(c, p); break; case 2: one<2>(c, p); break; case 3: one<3>(c, p); break; default: one<4>(c, p); break; }
#endif
	});
}
