// C12 — projection views (element_transformed, static/const casts, member_cast, reinterpret_array_cast, real/imag/real_doubled) over
// views reached by random view programs: address and value of every projected element vs. the per-element byte-offset rule.
//   -DC12_E: 0 struct{double a; int b; int c;}, 1 std::complex<double>, 2 int
#define VK_MAIN
#include "../kit/viewprog.hpp"
#include <boost/multi/adaptors/blas/numeric.hpp>
#include <complex>
#include <array>
using namespace vk;

#ifndef C12_E
#define C12_E 0
#endif
struct P { double a; int b; int c; };
#if C12_E == 0
using E = P; static E mk(L i) { return P{double(i) + 0.5, int(i * 3 + 1), int(-i)}; }
#elif C12_E == 1
using E = std::complex<double>; static E mk(L i) { return E(double(i), double(-2 * i) - 0.25); }
#else
using E = int; static E mk(L i) { return int(i * 7 % 101); }
#endif
static GenCfg cfg;

template<class PV, class W> void check_addr(std::string const& K, PV const& pv, MV const& m, W&& want_addr) {  // pv has the source's extents; want_addr(k) is the expected address of the k-th element
	constexpr int D = rank_of<PV>; auto rs = tuple_to_vec(pv.sizes()); if(rs != m.size) violation(K + "extents", "projection has sizes " + join(rs, "x") + ", source " + m.shape());
	std::vector<L> ix; for(L k = 0; k < m.n(); ++k) { m.unlin(k, ix); void const* got = static_cast<void const*>(std::addressof(brk(pv, ix))); if(got != want_addr(k)) violation(K + "address", "projected element at " + join(ix) + " is not at the address the per-element rule prescribes"); }
	count("elements_compared", m.n()); (void)D;
}

// backward traversal of a lazily transformed view: --it, end() - n, it -= n on the leading iterators and on elements() reach f(source element) of the position they stand for
template<class PV, class Val> void backward_walk(std::string const& K, PV&& pv, MV const& m, Val&& val) {
	constexpr int D = rank_of<PV>; if(m.has_zero()) return; L const s0 = m.size[0]; std::vector<L> ix(std::size_t(D), 0);
	auto lead = [&](auto const& it, L i, char const* how) { ix.assign(std::size_t(D), 0); ix[0] = i; auto const want = val(m.lin(ix)); bool ok;
		if constexpr(D == 1) { ok = (*it == want); } else { std::vector<L> z(std::size_t(D - 1), 0); ok = (brk(*it, z) == want); }
		if(!ok) violation(K + "backward:" + how, std::string("the leading iterator reached by ") + how + " at position " + std::to_string(i) + " does not yield f(source element at that index)"); return ok; };
	{ auto it = pv.end(); bool ok = true; for(L i = s0 - 1; i >= 0 && ok; --i) { --it; ok = lead(it, i, "--it"); } if(ok && !(it == pv.begin())) violation(K + "backward:begin", "size() decrements of end() do not reach begin()"); }
	for(L n = 1; n <= std::min<L>(s0, 3); ++n) { auto it = pv.end() - n; lead(it, s0 - n, "end()-n"); auto jt = pv.end(); jt -= n; lead(jt, s0 - n, "it-=n"); }
	{ auto&& els = pv.elements(); L const N = m.n(); auto e = els.end(); for(L k = N - 1; k >= std::max<L>(0, N - 5); --k) { --e; if(!(*e == val(k))) { violation(K + "backward:elements:--it", "the elements() iterator decremented to position " + std::to_string(k) + " does not yield f(source element)"); break; } }
		auto e2 = els.end(); e2 -= N; if(!(e2 == els.begin())) violation(K + "backward:elements:-=", "elements().end() -= num_elements() is not begin()"); else if(!(*e2 == val(0))) violation(K + "backward:elements:-=", "elements().end() - num_elements() does not yield f(first element)"); }
	count("backward-walks");
}

struct ProjVis {
	E* base; L rootn; Rng* g;
	template<class V> void at(V const&, MV const&, char const*) {}
	template<class V> void final(V&& v, MV const& m) {
		constexpr int D = rank_of<V>; if(m.has_zero() || D >= MAXD) return; L const N = m.n(); std::vector<L> ix;
		// member_cast / reinterpret_array_cast / real / imag of views whose element pointer is pointer-to-const do not compile on the pinned tree (reinterpret_cast casts away qualifiers): sources with a const element pointer are skipped for those
		constexpr bool MUTP = std::is_same_v<typename std::decay_t<V>::element_ptr, E*>; if(!MUTP) { count("skipped:source-with-const-element-pointer"); return; }
		if constexpr(MUTP) {
		auto src = [&](L k) -> E& { return base[m.off[std::size_t(k)]]; };
		int const which = int(g->below(6)); sig_mix(std::uint64_t(which)); nontrivial(N >= 2);
#if C12_E == 0
		static char const* WN[] = {"member_cast<int>(b)", "member_cast<double>(a)", "element_transformed(&P::c)", "element_transformed(value-lambda)", "array-from-member_cast", "member_cast+rotated"};
		std::string const K = std::string("C12:") + WN[which] + ":"; describe(std::string(" => ") + WN[which]); op(WN[which]); count(std::string("proj:") + WN[which]);
		switch(which) {
		case 0: { auto&& pv = v.template member_cast<int>(&P::b); check_addr(K, pv, m, [&](L k) { return static_cast<void const*>(&src(k).b); });
			if constexpr(is_mutable_view<V>) { L k = g->below(N); m.unlin(k, ix); brk(pv, ix) = 4242; if(src(k).b != 4242) violation(K + "write-through", "a write through member_cast did not land in the source element"); } break; }
		case 1: { auto&& pv = std::as_const(v).template member_cast<double>(&P::a); check_addr(K, pv, m, [&](L k) { return static_cast<void const*>(&src(k).a); }); break; }
		case 2: { auto&& pv = v.element_transformed(&P::c); if(tuple_to_vec(pv.sizes()) != m.size) violation(K + "extents", "sizes differ"); for(L k = 0; k < N; ++k) { m.unlin(k, ix); if(brk(pv, ix) != src(k).c) violation(K + "value", "element_transformed(member) value differs"); src(k).c += 1000; if(brk(pv, ix) != src(k).c) violation(K + "not-lazy", "element_transformed does not reflect a later change of the source element"); } backward_walk(K, pv, m, [&](L k) { return src(k).c; });
			if constexpr(is_mutable_view<V> && !std::is_const_v<std::remove_reference_t<V>>) { L const k = g->below(N); m.unlin(k, ix);  // writes through, from a named and from an EXPIRING mutable source alike (a view is reference-like)
				brk(pv, ix) = 4343; if(src(k).c != 4343) violation(K + "write-through", "a write through element_transformed(&P::c) did not land in the source element");
				auto&& pr = std::move(v).element_transformed(&P::c); using PR = decltype(brk(pr, ix)); if constexpr(std::is_assignable_v<PR, int>) { brk(pr, ix) = 4344; if(src(k).c != 4344) violation(K + "write-through(expiring source)", "a write through element_transformed(&P::c) of an expiring mutable view did not land in the source element"); }
				else { violation(K + "expiring-source-not-writable", "element_transformed(&P::c) of an expiring mutable view is read-only"); } count("transformed-write-through"); }
			break; }
		case 3: { auto f = [](P const& p) { return long(p.b) * 2 + 1; }; auto&& pv = std::as_const(v).element_transformed(decltype(f)(f)); if(tuple_to_vec(pv.sizes()) != m.size) violation(K + "extents", "sizes differ");
			for(L k = 0; k < N; ++k) { m.unlin(k, ix); if(brk(pv, ix) != f(src(k))) violation(K + "value", "element_transformed(f) != f(source element)"); src(k).b -= 7; if(brk(pv, ix) != f(src(k))) violation(K + "not-lazy", "element_transformed is not evaluated at access time"); }
			multi::array<long, D> C(pv); for(L k = 0; k < N; ++k) if(C.data_elements()[k] != f(src(k))) violation(K + "array-from-projection", "array constructed from the transformed view differs element-wise"); backward_walk(K, pv, m, [&](L k) { return f(src(k)); }); break; }
		case 4: { auto&& pv = std::as_const(v).template member_cast<int>(&P::b); multi::array<int, D> C(pv); if(tuple_to_vec(C.sizes()) != m.size) violation(K + "extents", "array constructed from member_cast has other extents"); for(L k = 0; k < N; ++k) if(C.data_elements()[k] != src(k).b) violation(K + "value", "array constructed from member_cast differs element-wise");
			multi::array<double, D> Cd(pv); for(L k = 0; k < N; ++k) if(Cd.data_elements()[k] != double(src(k).b)) violation(K + "converted-value", "array<double> constructed from a member_cast<int> view is not converted element by element"); break; }
		default: { auto&& pv = std::as_const(v).template member_cast<int>(&P::b); auto&& rv = pv.rotated(); MV rm = m_rotated(m); check_addr(K, rv, rm, [&](L k) { return static_cast<void const*>(&base[rm.off[std::size_t(k)]].b); }); break; }
		}
#elif C12_E == 1
		static char const* WN[] = {"real", "imag", "reinterpret_array_cast<double>(2)", "reinterpret_array_cast<array<double,2>>()", "real_doubled", "array-from-reinterpret"};
		std::string const K = std::string("C12:") + WN[which] + ":"; describe(std::string(" => ") + WN[which]); op(WN[which]); count(std::string("proj:") + WN[which]);
		auto dp = [&](L k, int j) { return static_cast<void const*>(reinterpret_cast<double const*>(&src(k)) + j); };
		switch(which) {
		case 0: if constexpr(is_mutable_view<V>) { auto&& pv = multi::blas::real(v); check_addr(K, pv, m, [&](L k) { return dp(k, 0); }); } else { count("skipped:real/imag-of-read-only-view-type"); } break;
		case 1: if constexpr(is_mutable_view<V>) { auto&& pv = multi::blas::imag(v); check_addr(K, pv, m, [&](L k) { return dp(k, 1); }); } else { count("skipped:real/imag-of-read-only-view-type"); } break;
		case 2: case 5: { auto&& pv = std::as_const(v).template reinterpret_array_cast<double>(2); MV xm; xm.size = m.size; xm.size.push_back(2); auto rs = tuple_to_vec(pv.sizes()); if(rs != xm.size) violation(K + "extents", "sizes " + join(rs, "x") + " expected " + join(xm.size, "x"));
			else { std::vector<L> jx; for(L k = 0; k < N; ++k) for(int j = 0; j < 2; ++j) { m.unlin(k, jx); jx.push_back(j); if(static_cast<void const*>(std::addressof(brk(pv, jx))) != dp(k, j)) violation(K + "address", "element [..., " + std::to_string(j) + "] does not overlay byte offset j*sizeof(double) of the source element"); }
				if(which == 5) { multi::array<double, D + 1> C(pv); for(L k = 0; k < N; ++k) if(C.data_elements()[2 * k] != src(k).real() || C.data_elements()[2 * k + 1] != src(k).imag()) violation(K + "value", "array constructed from the reinterpreted view differs"); } }
			if constexpr(is_mutable_view<V> && !std::is_const_v<std::remove_reference_t<V>>) {  // the same through the mutable lvalue and the rvalue overloads (+ write-through)
				auto chk2 = [&](auto&& qv, char const* form) { auto rs2 = tuple_to_vec(qv.sizes()); if(rs2 != xm.size) { violation(K + form + ":extents", std::string(form) + ": sizes " + join(rs2, "x") + " expected " + join(xm.size, "x")); return; }
					std::vector<L> jx; for(L k = 0; k < N; ++k) for(int j = 0; j < 2; ++j) { m.unlin(k, jx); jx.push_back(j); if(static_cast<void const*>(std::addressof(brk(qv, jx))) != dp(k, j)) { violation(K + form + ":address", std::string(form) + ": element [..., j] does not overlay byte offset j*sizeof(double) of the source element"); return; } }
					L const k = g->below(N); m.unlin(k, jx); jx.push_back(1); brk(qv, jx) = -77.5; if(src(k).imag() != -77.5) violation(K + form + ":write-through", std::string(form) + ": a write through the reinterpreted view did not land in the source element"); count(std::string("reinterpret-form:") + form); };
				chk2(v.template reinterpret_array_cast<double>(2), "lvalue"); chk2(std::move(v).template reinterpret_array_cast<double>(2), "rvalue"); }
			break; }
		case 3: { auto&& pv = std::as_const(v).template reinterpret_array_cast<std::array<double, 2>>(); check_addr(K, pv, m, [&](L k) { return dp(k, 0); }); break; }
		default: { // real_doubled merges (last extent, 2) with flatted(): in domain only when the last dimension of the source is contiguous (decided on the model)
			{ std::vector<L> z(m.size.size(), 0); bool unit = m.size.back() < 2; if(!unit) { auto e2 = z; e2.back() = 1; unit = (m.off[std::size_t(m.lin(e2))] - m.off[0] == 1); } if(!unit) { count("skipped:real_doubled-last-dimension-not-contiguous"); break; } }
			auto&& pv = multi::blas::real_doubled(std::as_const(v)); MV xm; xm.size = m.size; xm.size.back() *= 2; auto rs = tuple_to_vec(pv.sizes()); if(rs != xm.size) { violation(K + "extents", "sizes " + join(rs, "x") + " expected " + join(xm.size, "x")); }
			else { std::vector<L> jx; for(L k = 0; k < N; ++k) for(int j = 0; j < 2; ++j) { m.unlin(k, jx); jx.back() = jx.back() * 2 + j; if(static_cast<void const*>(std::addressof(brk(pv, jx))) != dp(k, j)) violation(K + "address", "real_doubled does not interleave real and imaginary parts in the last dimension"); } } break; }
		}
#else
		static char const* WN[] = {"element_transformed(value)", "element_transformed(reference)", "static_array_cast<int const>", "as_const", "const_array_cast", "array<long>(view)"};
		std::string const K = std::string("C12:") + WN[which] + ":"; describe(std::string(" => ") + WN[which]); op(WN[which]); count(std::string("proj:") + WN[which]);
		switch(which) {
		case 0: { auto f = [](int x) { return double(x) * 0.5 + 1; }; auto&& pv = std::as_const(v).element_transformed(decltype(f)(f)); if(tuple_to_vec(pv.sizes()) != m.size) violation(K + "extents", "sizes differ"); for(L k = 0; k < N; ++k) { m.unlin(k, ix); if(brk(pv, ix) != f(src(k))) violation(K + "value", "element_transformed(f) != f(source)"); src(k) += 3; if(brk(pv, ix) != f(src(k))) violation(K + "not-lazy", "not evaluated at access time"); }
			{ auto&& rv = pv.rotated(); MV rm = m_rotated(m); std::vector<L> jx; for(L k = 0; k < N; ++k) { rm.unlin(k, jx); if(brk(rv, jx) != f(base[rm.off[std::size_t(k)]])) violation(K + "composed-with-rotated", "transformed view does not compose with rotated()"); } }
			multi::array<double, D> C(pv); for(L k = 0; k < N; ++k) if(C.data_elements()[k] != f(src(k))) violation(K + "array-from-projection", "array from the transformed view differs"); break; }
		case 1: if constexpr(is_mutable_view<V>) { auto f = [](int& x) -> int& { return x; }; auto&& pv = v.element_transformed(decltype(f)(f)); check_addr(K, pv, m, [&](L k) { return static_cast<void const*>(&src(k)); }); L k = g->below(N); m.unlin(k, ix); brk(pv, ix) = -55; if(src(k) != -55) violation(K + "write-through", "write through a reference-yielding transformation did not land in the source"); } break;
		case 2: { auto&& pv = std::as_const(v).template static_array_cast<int const>(); check_addr(K, pv, m, [&](L k) { return static_cast<void const*>(&src(k)); }); break; }
		case 3: if constexpr(D > 1) { auto&& pv = v.as_const(); check_addr(K, pv, m, [&](L k) { return static_cast<void const*>(&src(k)); });
			{ // the same from a source whose indices do not start at zero: as_const / const_array_cast keep the extensions (first indices included) and the element at every index
				L const r0 = g->in(-3, 4); L r1 = g->in(-3, 3); if(r1 == 0) r1 = 2; auto&& w = v.reindexed(r0, r1); count("re-based-sources");
				auto twin = [&](auto&& pw, char const* what) { if(!(pw.extensions() == w.extensions())) violation(K + "re-based:" + what + ":extensions", std::string(what) + " of a re-based view reports other extensions than its source");
					else { std::vector<L> jx; for(L k = 0; k < N; ++k) { m.unlin(k, ix); jx = ix; jx[0] += r0; jx[1] += r1; if(static_cast<void const*>(std::addressof(brk(pw, jx))) != static_cast<void const*>(&src(k))) { violation(K + "re-based:" + what + ":element-identity", std::string(what) + " of a view whose indices start at (" + std::to_string(r0) + "," + std::to_string(r1) + ",0...) designates another element at relative index " + join(ix) + " (off by " + std::to_string(static_cast<int const*>(static_cast<void const*>(std::addressof(brk(pw, jx)))) - &src(k)) + " elements)"); break; } } } };
				twin(w.as_const(), "as_const"); twin(std::as_const(w).template const_array_cast<int>(), "const_array_cast"); twin(std::as_const(w).template static_array_cast<int const>(), "static_array_cast<int const>"); }
			} break;
		case 4: if constexpr(D > 1) { auto&& pv = std::as_const(v).template const_array_cast<int>(); check_addr(K, pv, m, [&](L k) { return static_cast<void const*>(&src(k)); }); } break;
		default: { multi::array<long, D> C(std::as_const(v)); if(tuple_to_vec(C.sizes()) != m.size) violation(K + "extents", "converted array has other extents"); for(L k = 0; k < N; ++k) if(C.data_elements()[k] != long(src(k))) violation(K + "value", "converted array differs element-wise");
			if constexpr(D >= 3) { auto&& iv = std::as_const(v).rotated().transposed().unrotated(); MV im = m_unrotated(m_transposed(m_rotated(m))); multi::array<long, D> C2(iv); multi::array<int, D> C3(iv);  // inner dimensions permuted (compact when v is)
				if(tuple_to_vec(C2.sizes()) != im.size || tuple_to_vec(C3.sizes()) != im.size) violation(K + "inner-permuted:extents", "array from a view with permuted inner dimensions has other extents");
				else for(L k = 0; k < N; ++k) if(C2.data_elements()[k] != long(base[im.off[std::size_t(k)]]) || C3.data_elements()[k] != base[im.off[std::size_t(k)]]) { violation(K + "inner-permuted:value", "array constructed from a view with permuted inner dimensions differs element-wise from the view"); break; } }
			{	// from an owning array / array_ref of a convertible element type of the SAME size (int -> float, long -> double): converted element by element, never reinterpreted
				multi::array<int, D> src(std::as_const(v)); multi::array<float, D> F(src); multi::array<float, D> F2(multi::array_ref<int, D>(src.extensions(), src.data_elements())); multi::array<float, D> F3; F3 = src; multi::array<float, D> F4(src.extensions(), 0.5F); F4 = src;
				multi::array<long, D> lsrc(src); multi::array<double, D> DD(lsrc); multi::array<int, D> back(F);
				if(tuple_to_vec(F.sizes()) != m.size || tuple_to_vec(F2.sizes()) != m.size || tuple_to_vec(F3.sizes()) != m.size || tuple_to_vec(DD.sizes()) != m.size) violation(K + "same-size-conversion:extents", "array from an array of convertible element type has other extents");
				else for(L k = 0; k < N; ++k) { float const want = float(src.data_elements()[k]); if(F.data_elements()[k] != want || F2.data_elements()[k] != want || F3.data_elements()[k] != want || F4.data_elements()[k] != want || DD.data_elements()[k] != double(src.data_elements()[k]) || back.data_elements()[k] != src.data_elements()[k]) { violation(K + "same-size-conversion:value", "array constructed/assigned from an array of a convertible element type of the same size is not the element-wise conversion (int->float, long->double, float->int)"); break; } }
				count("same-size-conversions"); }
			break; }
		}
#endif
		}
	}
};

template<int D> void one(Case& c, Prog const& p) {
	auto exts = make_extensions<D>(p.root); MV m = MV::root(p.root); describe("D=" + std::to_string(D) + " root=" + m.shape() + ":"); sig_mix(std::uint64_t(D));
	multi::array<E, D> A(exts); for(L i = 0; i < m.n(); ++i) A.data_elements()[i] = mk(i);
	ProjVis vis{A.data_elements(), m.n(), &c.rng}; Interp<ProjVis> I{vis, p}; I.run(A(), m, 0, "root");
}

// reinterpret_array_cast<U>() of READ-ONLY 1-D sources (the const& overload of the 1-D specialisation builds its layout by hand) where sizeof(T) is not a
// multiple of sizeof(U): a larger target over a strided source (the form the repository tests use on mutable sources), and 12-byte elements seen as 8-byte ones.
// Only extents and element addresses are compared: nothing is read through the reinterpreted type.
struct I2 { int a, b; }; struct I3 { int a, b, c; };
static void reinterpret_ratio_probe(Rng& g) {
	L const n = g.in(2, 6); int const kind = int(g.below(3)); static char const* KN[] = {"int-strided(2)->8-byte", "12-byte-strided(2)->8-byte", "row-of-2-D-int-strided(2)->8-byte"};
	describe(std::string("reinterpret ratio probe: ") + KN[kind] + " n=" + std::to_string(n)); sig_mix("ratio-probe"); sig_mix(std::uint64_t(kind)); op((std::string("reinterpret_array_cast(const 1-D):") + KN[kind]).c_str());
	std::string const K = std::string("C12:reinterpret_array_cast(const 1-D):") + KN[kind] + ":"; count(std::string("ratio-probe:") + KN[kind]);
	auto chk = [&](auto const& r, auto addr_of_src) { if(L(r.size()) != n) { violation(K + "extents", "the reinterpreted view has size " + std::to_string(L(r.size())) + ", the source view has " + std::to_string(n)); return; }
		for(L k = 0; k < n; ++k) if(static_cast<void const*>(std::addressof(r[k])) != addr_of_src(k)) { violation(K + "address", "element " + std::to_string(k) + " of the reinterpreted view does not sit over source element " + std::to_string(k)); return; } };
	if(kind == 0) { multi::array<int, 1> const A(multi::extensions_t<1>{2 * n}, 7); auto const& v = A.strided(2); auto&& r = v.reinterpret_array_cast<I2>(); chk(r, [&](L k) { return static_cast<void const*>(&A[2 * k]); }); }
	else if(kind == 1) { multi::array<I3, 1> const A(multi::extensions_t<1>{2 * n}, I3{1, 2, 3}); auto const& v = A.strided(2); auto&& r = v.reinterpret_array_cast<I2>(); chk(r, [&](L k) { return static_cast<void const*>(&A[2 * k]); }); }
	else { multi::array<int, 2> const M({3, 2 * n}, 5); auto const& v = M[1].strided(2); auto&& r = v.reinterpret_array_cast<I2>(); chk(r, [&](L k) { return static_cast<void const*>(&M[1][2 * k]); }); }
	nontrivial(true);
}

// an array constructed from an array / array_ref of an element type that is only EXPLICITLY convertible (complex<double> -> complex<float>, a type with an explicit
// constructor): extents are preserved - including first indices other than 0 - and elements are converted one by one in canonical order
struct FromInt { long v = 0; FromInt() = default; explicit FromInt(int x) : v{10L * x} {} };
static void explicit_conversion_probe(Rng& g) {
	L const r = g.in(1, 3), q = g.in(1, 4), b0 = g.in(-3, 5), b1 = g.in(-2, 6); int const form = int(g.below(5)); static char const* FN[] = {"array&", "array const&", "array&&", "array_ref&", "array_ref const&"};
	describe(std::string("explicit conversion probe ") + FN[form] + " extents [" + std::to_string(b0) + "," + std::to_string(b0 + r) + ")x[" + std::to_string(b1) + "," + std::to_string(b1 + q) + ")"); sig_mix("explicit-conversion"); sig_mix(std::uint64_t(form));
	op((std::string("array(explicitly-convertible-source):") + FN[form]).c_str()); count(std::string("explicit-conversion:") + FN[form]); std::string const K = std::string("C12:array(explicitly-convertible-source):") + FN[form] + ":";
	multi::extensions_t<2> const ex({b0, b0 + r}, {b1, b1 + q}); multi::array<int, 2> SI(ex); multi::array<std::complex<double>, 2> SZ(ex); { int k = 0; for(auto& e : SI.elements()) e = ++k; k = 0; for(auto& e : SZ.elements()) { ++k; e = std::complex<double>(k, -k); } }
	auto chk = [&](auto const& DI, auto const& DZ) { if(!(DI.extensions() == ex) || !(DZ.extensions() == ex)) { violation(K + "extents", "the converted array does not have the source's extensions (first indices " + std::to_string(L(DI.extension().first())) + " / " + std::to_string(L(DZ.extension().first())) + ", source " + std::to_string(b0) + ")"); return; }
		int k = 0; for(auto const& e : DI.elements()) { ++k; if(e.v != 10L * k) { violation(K + "elements", "element " + std::to_string(k - 1) + " is not the explicit conversion of the source element"); return; } } k = 0; for(auto const& e : DZ.elements()) { ++k; if(e != std::complex<float>(float(k), float(-k))) { violation(K + "elements", "complex<float> element differs from the converted complex<double>"); return; } } };
	switch(form) {
	case 0: { multi::array<FromInt, 2> DI(SI); multi::array<std::complex<float>, 2> DZ(SZ); chk(DI, DZ); break; }
	case 1: { multi::array<FromInt, 2> DI(std::as_const(SI)); multi::array<std::complex<float>, 2> DZ(std::as_const(SZ)); chk(DI, DZ); break; }
	case 2: { auto SI2 = SI; auto SZ2 = SZ; multi::array<FromInt, 2> DI(std::move(SI2)); multi::array<std::complex<float>, 2> DZ(std::move(SZ2)); chk(DI, DZ); break; }
	case 3: { multi::array_ref<int, 2> RI(ex, SI.data_elements()); multi::array_ref<std::complex<double>, 2> RZ(ex, SZ.data_elements()); multi::array<FromInt, 2> DI(RI); multi::array<std::complex<float>, 2> DZ(RZ); chk(DI, DZ); break; }
	default: { multi::array_ref<int, 2> const RI(ex, SI.data_elements()); multi::array_ref<std::complex<double>, 2> const RZ(ex, SZ.data_elements()); multi::array<FromInt, 2> DI(RI); multi::array<std::complex<float>, 2> DZ(RZ); chk(DI, DZ); break; }
	}
	nontrivial(true);
}

#if C12_E == 0
// element_transformed / static_array_cast / as_const of RE-BASED sources (first indices other than 0), read-only and mutable: the projection has the source's
// extensions - first indices included -, its element at every SOURCE index is f(source element), and an array built from it inherits those extensions
static void rebased_projection_probe(Rng& g) {
	L const r = g.in(1, 3), q = g.in(1, 4), t = g.in(1, 2), b0 = g.in(-3, 5), b1 = g.in(-2, 4), b2 = g.in(-1, 3); int const form = int(g.below(6)); static char const* FN[] = {"const-array.element_transformed(value)", "const-array.element_transformed(&P::c)", "mutable-array.element_transformed(&P::c)", "const-view.element_transformed(value)", "const-array.static_array_cast", "3-D const-array.element_transformed(value)"};
	describe(std::string("re-based projection probe ") + FN[form]); sig_mix("rebased-projection"); sig_mix(std::uint64_t(form)); op((std::string("projection(re-based source):") + FN[form]).c_str()); count(std::string("rebased-projection:") + FN[form]);
	std::string const K = std::string("C12:projection(re-based source):") + FN[form] + ":"; auto f = [](P const& p) { return long(p.b) * 3 + 1; };
	multi::extensions_t<2> const ex({b0, b0 + r}, {b1, b1 + q}); multi::array<P, 2> A(ex); { int k = 0; for(auto& e : A.elements()) { ++k; e = P{double(k), k, 100 + k}; } }
	auto chk2 = [&](auto&& pv, auto&& val) { if(!(pv.extensions() == ex)) { violation(K + "extents", "the projected view does not have the source's extensions (leading first index " + std::to_string(L(pv.extension().first())) + ", source " + std::to_string(b0) + ")"); return; }
		for(L i = b0; i < b0 + r; ++i) for(L j = b1; j < b1 + q; ++j) if(!(pv[i][j] == val(A[i][j]))) { violation(K + "value", "the projected element at a source index is not f(source element at that index)"); return; } };
	switch(form) {
	case 0: { auto&& pv = std::as_const(A).element_transformed(decltype(f)(f)); chk2(pv, f); multi::array<long, 2> C(pv); if(!(C.extensions() == ex)) violation(K + "array-extents", "an array built from the projection does not inherit the source's extensions"); break; }
	case 1: { auto&& pv = std::as_const(A).element_transformed(&P::c); chk2(pv, [](P const& p) { return p.c; }); break; }
	case 2: { auto&& pv = A.element_transformed(&P::c); chk2(pv, [](P const& p) { return p.c; }); pv[b0][b1] = 4711; if(A[b0][b1].c != 4711) violation(K + "write-through", "a write through the projection of a re-based array did not land in the element of the same index"); break; }
	case 3: { auto const& cv = std::as_const(A)(); auto&& pv = cv.element_transformed(decltype(f)(f)); chk2(pv, f); break; }
	case 4: { multi::array<int, 2> I(ex); { int k = 0; for(auto& e : I.elements()) e = ++k; } auto&& pv = std::as_const(I).template static_array_cast<int const>(); if(!(pv.extensions() == ex)) violation(K + "extents", "static_array_cast of a re-based array changes the extensions"); else if(std::addressof(pv[b0][b1]) != std::addressof(I[b0][b1])) violation(K + "identity", "static_array_cast designates another element at the same index"); break; }
	default: { multi::extensions_t<3> const ex3({b0, b0 + r}, {b1, b1 + q}, {b2, b2 + t}); multi::array<P, 3> A3(ex3); { int k = 0; for(auto& e : A3.elements()) { ++k; e = P{double(k), k, 100 + k}; } } auto&& pv = std::as_const(A3).element_transformed(decltype(f)(f));
		if(!(pv.extensions() == ex3)) violation(K + "extents", "the projected 3-D view does not have the source's extensions"); else for(L i = b0; i < b0 + r; ++i) for(L j = b1; j < b1 + q; ++j) for(L k = b2; k < b2 + t; ++k) if(pv[i][j][k] != f(A3[i][j][k])) { violation(K + "value", "3-D projected element differs"); i = b0 + r; j = b1 + q; break; } break; }
	}
	nontrivial(true);
}
#endif

int main(int argc, char** argv) {
	cfg.maxD = 3;
	return main_loop(argc, argv, [&](Case& c) {
		static bool init = false; if(!init) { init = true; auto& a = st().args; for(std::size_t i = 0; i + 1 < a.size(); ++i) { if(a[i] == "--maxext") cfg.max_ext = std::atoi(a[i + 1].c_str()); if(a[i] == "--maxops") cfg.max_ops = std::atoi(a[i + 1].c_str()); } }
		if(c.k % 64 == 5) { reinterpret_ratio_probe(c.rng); return; }
		if(c.k % 64 == 37) { explicit_conversion_probe(c.rng); return; }
#if C12_E == 0
		if(c.k % 64 == 21 || c.k % 64 == 53) { rebased_projection_probe(c.rng); return; }
#endif
		Prog p = gen_prog(c.rng, cfg); for(auto& o : p.ops) if(o.cat == 1 && c.rng.chance(1, 2)) o.cat = 0;
		switch(p.root.size()) { case 1: one<1>(c, p); break; case 2: one<2>(c, p); break; default: one<3>(c, p); break; }
	});
}
