// C05 — assignment through views is deep, writes exactly the viewed elements in logical order, touches nothing else.
#define VK_MAIN
#include <cmath>
#include "../kit/operands.hpp"
#include <boost/multi/array_ref.hpp>
using namespace vk;

#ifdef C05_STR
using T = std::string; using T2 = std::string;
#else
using T = int; using T2 = long;
#endif

static GenCfg cfg;
static char const* OV[] = {"lv=src", "rv=src", "lv=move(src)", "elements=elements", "fill", "swap", "initializer_list", "range(vector)", "lv=const-src", "lv=other-element-type", "element_moved", "moved-subarray", "rv=move(src)", "rv=element_moved"};
constexpr int NOV = 14;
constexpr L G = 8;

template<class X> bool same(T const& a, X const& b) { if constexpr(std::is_arithmetic_v<T>) { return long(a) == long(b); } else { return a == b; } }

struct C05Vis {
	T* root; L rootn; std::vector<T>* store; Rng* g; bool is_array_root;

	template<class V> void at(V const&, MV const&, char const*) {}

	// verify the root image: model elements hold want(k); everything else (incl. guards) equals the snapshot
	template<class W> void check_image(std::string const& K, MV const& m, std::vector<T> const& snap, W&& want, bool check_outside = true) {
		std::vector<char> in(snap.size(), 0);
		for(L k = 0; k < m.n(); ++k) { std::size_t o = std::size_t(G + m.off[std::size_t(k)]); in[o] = 1; if(!same((*store)[o], want(k))) { std::vector<L> ix; m.unlin(k, ix); violation(K + "wrong-value", "destination element at logical index " + join(ix) + " does not hold the source value of the same index"); } }
		if(check_outside) for(std::size_t i = 0; i < snap.size(); ++i) if(!in[i] && !((*store)[i] == snap[i])) violation(K + (i < std::size_t(G) || i >= snap.size() - std::size_t(G) ? "guard-modified" : "outside-view-modified"), "root storage offset " + std::to_string(L(i) - G) + " is outside the destination view but changed");
		count("elements_compared", m.n());
	}

	template<class V> void final(V&& v, MV const& m) {
		constexpr int D = rank_of<V>;
		if constexpr(!is_mutable_view<V>) { count("dst_read_only_type_skipped"); return; } else {
		if(m.has_zero()) { count("dst_empty_skipped"); return; }
		{ std::vector<L> so = m.off; std::sort(so.begin(), so.end()); if(std::adjacent_find(so.begin(), so.end()) != so.end()) { count("dst_self_overlapping_skipped"); return; } }
		int ov = int(g->below(NOV)); int const sk = int(g->below(NSRC)); L const N = m.n();
		std::vector<T> const snap = *store;
		auto srcval = [&](L k) { return mkval<T>(5, k); };
		auto run = [&](char const* what) { describe(std::string(" => ") + OV[ov] + " src=" + what + " dst=" + m.shape()); sig_mix(std::uint64_t(ov)); sig_mix(what); op(OV[ov]); count(std::string("ov:") + OV[ov]); nontrivial(N >= 2); };
		bool const rb = D >= 2 && (ov == 0 || ov == 1 || ov == 2 || ov == 3 || ov == 5 || ov == 8 || ov == 12) && g->chance(1, 4); L const rb0 = g->in(-3, 4); L rb1 = g->in(-3, 3); if(rb1 == 0) rb1 = 2;
		auto rebased = [&](auto& x) { if constexpr(D >= 2) { return x.reindexed(rb0, rb1); } else { return x(); } };  // (a 1-D reindexed(i) of a mutable view is a read-only view: nothing to assign to)
		std::string const K = std::string("C05:") + OV[ov] + (rb ? "(re-based):" : ":");
		switch(ov) {
		case 0: case 1: case 2: case 8: case 12: {  // assignment from a source of equal extents with any layout
			with_source<D, T>(sk, m.size, 5, [&](auto& src, MV const& sm, auto* sbase, L sn) { using ST = std::decay_t<decltype(*sbase)>;
				run(src_name(sk)); std::vector<T> ssnap(sbase, sbase + sn);
				if(rb) { auto&& w = rebased(v); auto&& sw = rebased(src); count("re-based-assignments");  // the same assignment between views whose index bases are not 0 (equal on both sides): element k goes to element k all the same
					if(ov == 0) { w = sw; } else if(ov == 1) { std::move(w) = sw; } else if(ov == 8) { w = std::as_const(sw); } else if(ov == 2) { w = std::move(sw); } else { std::move(w) = std::move(sw); } }
				else
				if(ov == 0) { v = src; } else if(ov == 1) { std::move(v) = src; } else if(ov == 8) { v = std::as_const(src); } else if(ov == 2) { v = std::move(src); } else { std::move(v) = std::move(src); }
				check_image(K, m, snap, srcval);
				if(ov == 0 || ov == 1 || ov == 8) { for(L i = 0; i < sn; ++i) if(!(sbase[i] == ssnap[std::size_t(i)])) violation(K + "source-modified", "copy assignment modified its source"); }
				else if constexpr(!std::is_base_of_v<multi::static_array<ST, rank_of<decltype(src)>>, std::decay_t<decltype(src)>> && std::is_same_v<ST, T>) {  // std::move of a VIEW (not element_moved(), not an owning array): views are reference-like, the elements are copied and the source keeps its values
					for(L i = 0; i < sn; ++i) if(!(sbase[i] == ssnap[std::size_t(i)])) { violation(K + "source-view-moved-from", "assignment from std::move(view) (a plain view, never element_moved()) left a source element moved-from / modified"); break; } count("move(view)-sources-checked"); }
				else if constexpr(!std::is_arithmetic_v<ST>) { std::vector<char> in(std::size_t(sn), 0); for(L o : sm.off) in[std::size_t(o)] = 1;
					for(L i = 0; i < sn; ++i) if(!in[std::size_t(i)] && !(sbase[i] == ssnap[std::size_t(i)])) violation(K + "moved-outside-source-view", "moving from a view modified a source element outside the view"); }
			}); break; }
		case 9: {  // convertible element type
			with_source<D, T2>(sk, m.size, 5, [&](auto& src, MV const&, T2*, L) { run(src_name(sk)); v = src; check_image(K, m, snap, [&](L k) { return mkval<T2>(5, k); }); }); break; }
		case 3: { with_source<D, T>(sk, m.size, 5, [&](auto& src, MV const&, T*, L) { run(src_name(sk)); if(rb) { auto&& w = rebased(v); auto&& sw = rebased(src); count("re-based-assignments"); w.elements() = sw.elements(); }
			else if(m.size[0] >= 2 && g->chance(1, 3)) {  // the same assignment written as a loop over an elements() iterator OBJECT that was bound to another range (other extents) before and then copy-assigned
				auto&& els = v.elements(); auto&& w = v.sliced(0, m.size[0] - 1); auto&& wels = w.elements(); auto sit = src.elements().begin();
				if constexpr(std::is_same_v<decltype(wels.begin()), decltype(els.begin())>) { auto it = wels.begin(); it = els.begin(); for(L k = 0; k < N; ++k) { *it = *sit; ++it; ++sit; } count("elements-iterator-rebound-writes"); } else { v.elements() = src.elements(); } }
			else { v.elements() = src.elements(); } check_image(K, m, snap, srcval); }); break; }
		case 4: { if constexpr(D == 1) { run("value"); T x = mkval<T>(7, 1); v.fill(x); check_image(K, m, snap, [&](L) { return x; }); } else { run("value(elements)"); T x = mkval<T>(7, 1); std::fill(v.elements().begin(), v.elements().end(), x); check_image(K, m, snap, [&](L) { return x; }); } break; }
		case 5: {  // swap of two views of equal extents
			with_source<D, T>(sk, m.size, 5, [&](auto& src, MV const& sm, auto* sbase, L sn) { using ST = std::decay_t<decltype(*sbase)>;
				if constexpr(is_mutable_view<decltype(src)> ) {
					run(src_name(sk)); std::vector<T> ssnap(sbase, sbase + sn);
					if(rb) { auto&& w = rebased(v); auto&& sw = rebased(src); count("re-based-assignments"); if(g->chance(1, 2)) { swap(std::move(w), std::move(sw)); } else { std::move(w).swap(std::move(sw)); } } else
					if(g->chance(1, 2)) { swap(std::move(v), std::move(src)); } else { std::move(v).swap(std::move(src)); }
					check_image(K, m, snap, srcval);
					std::vector<char> in(std::size_t(sn), 0);
					for(L k = 0; k < N; ++k) { L o = sm.off[std::size_t(k)]; in[std::size_t(o)] = 1; if(!(sbase[o] == snap[std::size_t(G + m.off[std::size_t(k)])])) violation(K + "other-side-wrong", "after swap the other view does not hold the destination's former value at the same index"); }
					for(L i = 0; i < sn; ++i) if(!in[std::size_t(i)] && !(sbase[i] == ssnap[std::size_t(i)])) violation(K + "other-side-outside-modified", "swap modified an element outside the other view");
				} else { count("swap_source_not_a_view_skipped"); }
			}); break; }
		case 6: {  // initializer lists (compile-time shapes): 1-D of size 1..4, 2-D of 2x2 / 1x3 / 2x3 / 3x1; and a flat list assigned to elements() (canonical order) for any rank
			if(N >= 1 && N <= 4 && g->chance(1, 3)) { T a = srcval(0), b = srcval(1), c = srcval(2), d = srcval(3); count("elements()=initializer_list");
				if(N == 1) { run("elements()={a}"); v.elements() = {a}; } else if(N == 2) { run("elements()={a,b}"); if(g->chance(1, 2)) { v.elements() = {a, b}; } else { auto&& els = v.elements(); els = {a, b}; } } else if(N == 3) { run("elements()={a,b,c}"); v.elements() = {a, b, c}; } else { run("elements()={a,b,c,d}"); v.elements() = {a, b, c, d}; }
				check_image(K, m, snap, srcval); break; }
			if constexpr(D == 1) { T a = srcval(0), b = srcval(1), c = srcval(2), d = srcval(3);
				if(N == 1) { run("{a}"); v = {a}; } else if(N == 2) { run("{a,b}"); if(g->chance(1, 2)) v = {a, b}; else std::move(v) = {a, b}; } else if(N == 3) { run("{a,b,c}"); v = {a, b, c}; } else if(N == 4) { run("{a,b,c,d}"); v = {a, b, c, d}; } else break;
				check_image(K, m, snap, srcval); }
			else if constexpr(D == 2) { T a = srcval(0), b = srcval(1), c = srcval(2), d = srcval(3), e = srcval(4), f = srcval(5);
				if(m.size == std::vector<L>{2, 2}) { run("{{a,b},{c,d}}"); v = {{a, b}, {c, d}}; } else if(m.size == std::vector<L>{1, 3}) { run("{{a,b,c}}"); v = {{a, b, c}}; } else if(m.size == std::vector<L>{2, 3}) { run("{{a,b,c},{d,e,f}}"); v = {{a, b, c}, {d, e, f}}; } else if(m.size == std::vector<L>{3, 1}) { run("{{a},{b},{c}}"); v = {{a}, {b}, {c}}; } else break;
				check_image(K, m, snap, srcval); }
			break; }
		case 7: {  // assignment from a range of values / of ranges
			if constexpr(D == 1) { run("std::vector"); std::vector<T> r; for(L k = 0; k < N; ++k) r.push_back(srcval(k)); if(g->chance(1, 2)) v = r; else std::move(v) = r; check_image(K, m, snap, srcval); }
			else if constexpr(D == 2) { run("std::vector<std::vector>"); std::vector<std::vector<T>> r(std::size_t(m.size[0])); for(L k = 0; k < N; ++k) r[std::size_t(k / m.size[1])].push_back(srcval(k)); v = r; check_image(K, m, snap, srcval); }
			break; }
		case 10: case 11: case 13: {  // moving from views: element_moved() / moved sub-arrays move from exactly the viewed elements
			with_source<D, T>(sk, m.size, 5, [&](auto& src, MV const& sm, auto* sbase, L sn) { using ST = std::decay_t<decltype(*sbase)>;
				if constexpr(is_mutable_view<decltype(src)>) {
					run(src_name(sk)); std::vector<T> ssnap(sbase, sbase + sn);
					if(ov == 10) { v = src.element_moved(); } else if(ov == 13) { std::move(v) = src.element_moved(); } else { v = src.move(); }
					check_image(K, m, snap, srcval);
					std::vector<char> in(std::size_t(sn), 0); for(L o : sm.off) in[std::size_t(o)] = 1;
					for(L i = 0; i < sn; ++i) { if(!in[std::size_t(i)]) { if(!(sbase[i] == ssnap[std::size_t(i)])) violation(K + "moved-outside-source-view", "moving from a view modified a source element outside the view"); }
						else if constexpr(!std::is_arithmetic_v<ST>) { if(!sbase[i].empty()) {
							// element_moved() is the documented (and baseline-tested) way to move elements out of a view: there the viewed elements must be moved-from.
							// For `.move()` (a sub-array flagged as movable) the pinned tree copies on whole-view assignment; the property does not clearly demand a move there: logged as an observation.
							if(ov == 10 || ov == 13) violation(K + "source-not-moved-from", "source element inside the element_moved() view was copied, not moved from"); else info("C05:move():copies-instead-of-moving", "dst = src.move() copied the elements (source left intact)"); } } }
				} else { count("move_source_not_a_view_skipped"); }
			}); break; }
		default: break;
		}
		}
	}
};

template<int D> void one(Case& c, Prog const& p) {
	auto exts = make_extensions<D>(p.root); MV m = MV::root(p.root); L const n = m.n();
	describe("D=" + std::to_string(D) + " root=" + m.shape() + ":"); sig_mix(std::uint64_t(D));
	{ std::vector<int> cls; for(auto s : p.root) cls.push_back(int(std::min<L>(s, 3))); std::sort(cls.begin(), cls.end()); for(int x : cls) sig_mix(std::uint64_t(x)); }
	std::vector<T> store(std::size_t(n + 2 * G), poison<T>()); for(L i = 0; i < n; ++i) store[std::size_t(G + i)] = mkval<T>(1, i);
	multi::array_ref<T, D> R(exts, store.data() + G);
	C05Vis vis{store.data() + G, n, &store, &c.rng, false}; Interp<C05Vis> I{vis, p};
	I.run(R(), m, 0, "root");
	if(!(R.data_elements() == store.data() + G) || !(R.extensions() == exts)) violation("C05:root-rebound", "assignment through a view changed data_elements()/extensions() of the root");
}

// swap of two views of ONE array that share at most elements mapped onto themselves (row 0 / column 0, row 0 / diagonal, two rows, a row and a
// column that cross away from the swapped positions' images): well defined element-wise, and nothing else may change
static void aliased_swap_probe(Case& c) {
	Rng& g = c.rng; L const n = g.in(2, 4); int const var = int(g.below(5)); static char const* VN[] = {"row0<->col0", "row0<->diagonal", "row i<->row j", "col i<->col j", "row0<->col0 (3-D slice)"};
	describe(std::string(" + aliased swap ") + VN[var] + " n=" + std::to_string(n)); op("swap(aliased)"); count(std::string("aliased-swap:") + VN[var]); std::string const K = "C05:swap(aliased):";
	multi::array<T, 2> S({n, n}); std::vector<T> model(std::size_t(n * n)); for(L i = 0; i < n * n; ++i) { S.data_elements()[i] = mkval<T>(3, i); model[std::size_t(i)] = mkval<T>(3, i); }
	std::vector<std::pair<L, L>> pairs; L i = g.below(n), j = (i + 1 + g.below(n - 1)) % n;
	switch(var) {
	case 0: case 4: for(L k = 0; k < n; ++k) pairs.push_back({0 * n + k, k * n + 0}); if(g.chance(1, 2)) swap(S[0], (~S)[0]); else S[0].swap((~S)[0]); break;
	case 1: for(L k = 0; k < n; ++k) pairs.push_back({0 * n + k, k * n + k}); swap(S[0], S.diagonal()); break;
	case 2: for(L k = 0; k < n; ++k) pairs.push_back({i * n + k, j * n + k}); swap(S[i], S[j]); break;
	default: for(L k = 0; k < n; ++k) pairs.push_back({k * n + i, k * n + j}); swap((~S)[i], (~S)[j]); break;
	}
	for(auto const& pq : pairs) if(pq.first != pq.second) std::swap(model[std::size_t(pq.first)], model[std::size_t(pq.second)]);
	for(L q = 0; q < n * n; ++q) if(!(S.data_elements()[q] == model[std::size_t(q)])) { violation(K + VN[var] + ":wrong-value", "after swapping two views of one array, flat element " + std::to_string(q) + " differs from the element-wise swap"); break; }
}

// Assignment copies VALUES even when destination and source already compare equal under the element type's operator== (records compared by key only, +0.0 / -0.0):
// "sets precisely the viewed elements to the corresponding source values" is about the values, and an equality shortcut is only sound for identity.
struct KeyRec { int key; int payload; friend bool operator==(KeyRec const& a, KeyRec const& b) { return a.key == b.key; } friend bool operator!=(KeyRec const& a, KeyRec const& b) { return a.key != b.key; } };
static void equal_but_distinct_probe(Case& c) {
	Rng& g = c.rng; L const r = g.in(2, 4), q = g.in(2, 4); int const form = int(g.below(8)); static char const* FN[] = {"named-row=const-row", "named-row=row", "temporary-row=const-row", "whole()=whole()", "named-block=const-transposed-block", "elements()=elements()", "named-row=array1d", "array_ref=array_ref"};
	describe(std::string(" + equal-but-distinct ") + FN[form]); op("assign(equal-but-distinct)"); count(std::string("equal-but-distinct:") + FN[form]); std::string const K = std::string("C05:assign(equal-but-distinct):") + FN[form] + ":";
	multi::array<KeyRec, 2> A({r, q}), B({r, q}); for(L i = 0; i < r; ++i) for(L j = 0; j < q; ++j) { A[i][j] = KeyRec{int(i * 10 + j), 100}; B[i][j] = KeyRec{int(i * 10 + j), 200}; }
	multi::array<double, 2> P({r, q}, +0.0), N({r, q}, -0.0); L const i0 = g.below(r); std::vector<char> want(std::size_t(r * q), 0);  // want[k] = 1: element k of A / P must hold the source value afterwards
	auto row = [&](L i) { for(L j = 0; j < q; ++j) want[std::size_t(i * q + j)] = 1; }; auto all = [&] { std::fill(want.begin(), want.end(), 1); };
	switch(form) {
	case 0: { auto&& d = A[i0]; auto const& s2 = std::as_const(B)[i0]; d = s2; auto&& dp = P[i0]; auto const& sp = std::as_const(N)[i0]; dp = sp; row(i0); break; }
	case 1: { auto&& d = A[i0]; d = B[i0]; auto&& dp = P[i0]; dp = N[i0]; row(i0); break; }
	case 2: { A[i0] = std::as_const(B)[i0]; P[i0] = std::as_const(N)[i0]; row(i0); break; }
	case 3: { A() = B(); P() = N(); all(); break; }
	case 4: { multi::array<KeyRec, 2> Bt({q, r}); multi::array<double, 2> Nt({q, r}, -0.0); for(L i = 0; i < r; ++i) for(L j = 0; j < q; ++j) Bt[j][i] = B[i][j]; auto&& d = A(); auto const& s2 = std::as_const(Bt).transposed(); d = s2; auto&& dp = P(); auto const& sp = std::as_const(Nt).transposed(); dp = sp; all(); break; }
	case 5: { A.elements() = B.elements(); P.elements() = N.elements(); all(); break; }
	case 6: { multi::array<KeyRec, 1> b1(multi::extensions_t<1>{q}); multi::array<double, 1> n1(multi::extensions_t<1>{q}, -0.0); for(L j = 0; j < q; ++j) b1[j] = B[i0][j]; auto&& d = A[i0]; d = b1; auto&& dp = P[i0]; dp = n1; row(i0); break; }
	default: { multi::array_ref<KeyRec, 2> RA(A.extensions(), A.data_elements()), RB(B.extensions(), B.data_elements()); RA = std::as_const(RB); multi::array_ref<double, 2> RP(P.extensions(), P.data_elements()), RN(N.extensions(), N.data_elements()); RP = std::as_const(RN); all(); break; }
	}
	for(L k = 0; k < r * q; ++k) { int const wp = want[std::size_t(k)] ? 200 : 100; bool const ws = want[std::size_t(k)] != 0;
		if(A.data_elements()[k].payload != wp) { violation(K + "payload", std::string("element ") + std::to_string(k) + " holds payload " + std::to_string(A.data_elements()[k].payload) + " after the assignment (records compare equal by key; the source payload is 200, untouched elements keep 100)"); break; }
		if(std::signbit(P.data_elements()[k]) != ws) { violation(K + "signed-zero", std::string("element ") + std::to_string(k) + (ws ? " was not set to the source's -0.0" : " outside the destination was changed")); break; } }
}

// whole-block assignment between references / element blocks of DIFFERENT, convertible element types (array_ref<double> = array_ref<int>, A.elements() = L.elements()): element by element conversion
static void cross_type_block_probe(Case& c) {
	Rng& g = c.rng; L const r = g.in(1, 3), q = g.in(1, 4); int const form = int(g.below(5)); static char const* FN[] = {"array_ref<double>=array_ref<int>", "array_ref<float>=array<double>", "array<int>.elements()=array<long>.elements()", "array_ref<double,1>=array_ref<float,1>", "array_ref<long>=array_ref<int>(named destination)"};
	describe(std::string(" + cross-type block ") + FN[form]); op("assign(cross-type block)"); count(std::string("cross-type-block:") + FN[form]); std::string const K = std::string("C05:assign(cross-type block):") + FN[form] + ":"; L const n = r * q; L const GG = 4;
	auto bad = [&](L k) { violation(K + "wrong-value", "element " + std::to_string(k) + " of the destination is not the converted source element"); };
	switch(form) {
	case 0: { std::vector<double> db(std::size_t(n + 2 * GG), -1.0); std::vector<int> ib(static_cast<std::size_t>(n)); for(L k = 0; k < n; ++k) ib[std::size_t(k)] = int(k + 1); multi::array_ref<double, 2>({r, q}, db.data() + GG) = multi::array_ref<int, 2>({r, q}, ib.data());
		for(L k = 0; k < n; ++k) if(db[std::size_t(GG + k)] != double(k + 1)) { bad(k); break; } for(L k = 0; k < GG; ++k) if(db[std::size_t(k)] != -1.0 || db[std::size_t(GG + n + k)] != -1.0) { violation(K + "guard-modified", "an element next to the destination block changed"); break; } break; }
	case 1: { std::vector<float> fb(std::size_t(n + 2 * GG), -1.0F); multi::array<double, 2> S({r, q}); { L k = 0; for(auto& e : S.elements()) e = 1.5 + double(k++); } multi::array_ref<float, 2>({r, q}, fb.data() + GG) = S;
		for(L k = 0; k < n; ++k) if(fb[std::size_t(GG + k)] != float(1.5 + double(k))) { bad(k); break; } for(L k = 0; k < GG; ++k) if(fb[std::size_t(k)] != -1.0F || fb[std::size_t(GG + n + k)] != -1.0F) { violation(K + "guard-modified", "an element next to the destination block changed"); break; } break; }
	case 2: { multi::array<int, 1> A(multi::extensions_t<1>{n}, -1); multi::array<long, 1> Lg(multi::extensions_t<1>{n}); for(L k = 0; k < n; ++k) Lg[k] = 10 * (k + 1); A.elements() = Lg.elements(); for(L k = 0; k < n; ++k) if(A[k] != int(10 * (k + 1))) { bad(k); break; } break; }
	case 3: { std::vector<double> db(static_cast<std::size_t>(n), -1.0); std::vector<float> fb(static_cast<std::size_t>(n)); for(L k = 0; k < n; ++k) fb[std::size_t(k)] = 0.5F / float(k + 1); multi::array_ref<double, 1>(multi::extensions_t<1>{n}, db.data()) = multi::array_ref<float, 1>(multi::extensions_t<1>{n}, fb.data()); for(L k = 0; k < n; ++k) if(db[std::size_t(k)] != double(0.5F / float(k + 1))) { bad(k); break; } break; }
	default: { std::vector<long> lb(static_cast<std::size_t>(n), -1); std::vector<int> ib(static_cast<std::size_t>(n)); for(L k = 0; k < n; ++k) ib[std::size_t(k)] = int(7 * k - 3); multi::array_ref<long, 2> RD({r, q}, lb.data()); multi::array_ref<int, 2> const RS({r, q}, ib.data()); std::move(RD) = RS; for(L k = 0; k < n; ++k) if(lb[std::size_t(k)] != long(7 * k - 3)) { bad(k); break; } break; }
	}
}

int main(int argc, char** argv) {
	// only operations that keep a mutable view type on the pinned tree, and no const value category
	cfg.kind_mask = (1UL << K_INDEX) | (1UL << K_SLICED) | (1UL << K_STRIDED) | (1UL << K_DROPPED) | (1UL << K_TAKED) | (1UL << K_ROTATED) | (1UL << K_UNROTATED) | (1UL << K_TRANSPOSED) | (1UL << K_DIAGONAL) | (1UL << K_PARTITIONED) | (1UL << K_FLATTED) | (1UL << K_CALL) | (1UL << K_PAREN);
	return main_loop(argc, argv, [&](Case& c) {
		static bool init = false; if(!init) { init = true; auto& a = st().args;
			for(std::size_t i = 0; i < a.size(); ++i) { auto val = [&] { return i + 1 < a.size() ? std::atol(a[i + 1].c_str()) : 0; };
				if(a[i] == "--maxext") cfg.max_ext = int(val()); else if(a[i] == "--maxops") cfg.max_ops = int(val()); } }
#ifdef C05_D
		Prog p = gen_prog(c.rng, cfg, C05_D); for(auto& o : p.ops) if(o.cat == 1) o.cat = 0; one<C05_D>(c, p);
#else
		Prog p = gen_prog(c.rng, cfg); for(auto& o : p.ops) if(o.cat == 1) o.cat = 0;
		switch(p.root.size()) { case 1: one<1>(c, p); break; case 2: one<2>(c, p); break; case 3: one<3>(c, p); break; default: one<4>(c, p); break; }
#endif
		if(c.k % 6 == 0 && st().case_viol == 0) aliased_swap_probe(c);
		if(c.k % 6 == 3 && st().case_viol == 0) equal_but_distinct_probe(c);
		if(c.k % 6 == 5 && st().case_viol == 0) cross_type_block_probe(c);
	});
}
