// C19 — index bases are transparent: the same view programs as C01 run on arrays whose indices do not start at zero; index-taking
// operations receive reported_first + relative index and the zero-based table model (the "twin") must designate the same elements.
#define VK_MAIN
#include "../kit/viewprog.hpp"
#include "../kit/tracked.hpp"
using namespace vk;

static GenCfg cfg;

template<class V> std::vector<L> firsts_of(V const& v) { std::vector<L> f; std::apply([&](auto const&... x) { (f.push_back(L(x.first())), ...); }, v.extensions().base()); return f; }

struct C19Vis {
	int const* base; L rootn; L elems = 0; int eff = 0;

	template<class V> void at(V const& v, MV const& m, char const* opn) {
		constexpr int D = rank_of<V>; std::string const K = std::string("C19:") + opn + ":";
		if(std::strcmp(opn, "skip") == 0) return; if(std::strcmp(opn, "root") != 0 && std::strcmp(opn, "paren") != 0) ++eff;
		if(m.has_zero()) { if(v.num_elements() != 0) violation(K + "empty:num_elements", "num_elements() != 0 for an empty twin"); return; }
		op((std::string(opn) + "/shape").c_str());
		auto const rs = tuple_to_vec(v.sizes()); if(rs != m.size) violation(K + "sizes", "sizes()=" + join(rs, "x") + " twin=" + m.shape());
		if(v.num_elements() != m.n()) violation(K + "num_elements", std::to_string(v.num_elements()) + " vs " + std::to_string(m.n()));
		std::vector<L> fs, ls; std::apply([&](auto const&... x) { (fs.push_back(L(x.first())), ...); (ls.push_back(L(x.last())), ...); }, v.extensions().base());
		for(int d = 0; d < D; ++d) if(ls[std::size_t(d)] - fs[std::size_t(d)] != m.size[std::size_t(d)]) violation(K + "extensions", "extension " + std::to_string(d) + " = [" + std::to_string(fs[std::size_t(d)]) + "," + std::to_string(ls[std::size_t(d)]) + ") but the twin has size " + std::to_string(m.size[std::size_t(d)]));
		L const N = m.n(); std::vector<L> ix(std::size_t(D), 0), jx(std::size_t(D), 0);
		op((std::string(opn) + "/index").c_str());
		for(L k = 0; k < N; ++k) { m.unlin(k, ix); for(int d = 0; d < D; ++d) jx[std::size_t(d)] = ix[std::size_t(d)] + fs[std::size_t(d)];
			int const* p1 = std::addressof(brk(v, jx)); L const got = p1 - base, want = m.off[std::size_t(k)];
			if(got < 0 || got >= rootn) violation(K + "outside-root", "bracket access at reported index " + join(jx) + " designates offset " + std::to_string(got) + " outside the root");
			if(got != want) violation(K + "bracket-offset", "reported index " + join(jx) + " (relative " + join(ix) + ") designates root offset " + std::to_string(got) + ", the zero-based twin designates " + std::to_string(want));
			if(std::addressof(call_ix(v, jx)) != p1) violation(K + "call-vs-bracket", "v(i...) != v[i]...");
			if(std::addressof(apply_ix(v, jx)) != p1) violation(K + "apply-vs-bracket", "apply(tuple) != v[i]...");
			++elems; }
		op((std::string(opn) + "/elements").c_str());
		{ auto&& els = v.elements(); if(els.size() != N) violation(K + "elements-size", "elements().size()"); auto it = els.begin();
			for(L k = 0; k < N; ++k, ++it) { L want = m.off[std::size_t(k)]; L g1 = std::addressof(*it) - base; if(g1 != want) violation(K + "elements-iter", "k-th elements() position (k=" + std::to_string(k) + ") designates root offset " + std::to_string(g1) + ", twin " + std::to_string(want));
				L g2 = std::addressof(els[k]) - base; if(g2 != want) violation(K + "elements-index", "elements()[k] designates another element than the twin, k=" + std::to_string(k)); } }
		op((std::string(opn) + "/iterate").c_str());
		{ L n = 0; for(auto it = v.begin(); it != v.end(); ++it, ++n) { std::vector<L> z(ix.size(), 0); for(int d = 1; d < D; ++d) z[std::size_t(d)] = 0; z[0] = n;
				int const* want = base + m.off[std::size_t(m.lin(z))]; int const* got;
				if constexpr(D == 1) { got = std::addressof(*it); } else { auto&& row = *it; auto rf = firsts_of(row); got = std::addressof(brk(row, rf)); }
				if(got != want) violation(K + "iteration", "begin()+" + std::to_string(n) + " does not designate the " + std::to_string(n) + "-th leading position of the twin"); }
			if(n != m.size[0]) violation(K + "iteration-count", "begin()..end() visits " + std::to_string(n) + " positions, twin size " + std::to_string(m.size[0])); }
		op((std::string(opn) + "/extension-range").c_str());  // `for(auto i : v.extension()) v[i]` is the documented way to walk the valid indices: the range must produce first, first+1, ..., last-1 and v[i] the i-first'th leading position
		{ auto const ext = v.extension(); L n = 0; std::vector<L> z(std::size_t(D), 0);
			if(L(ext.size()) != m.size[0]) violation(K + "extension-range:size", "extension().size()=" + std::to_string(L(ext.size())) + ", twin size " + std::to_string(m.size[0]));
			if(L(ext.front()) != fs[0] || L(ext.back()) != fs[0] + m.size[0] - 1) violation(K + "extension-range:front-back", "extension().front()/back() = " + std::to_string(L(ext.front())) + "/" + std::to_string(L(ext.back())) + " for first index " + std::to_string(fs[0]) + " and size " + std::to_string(m.size[0]));
			if(!ext.contains(fs[0]) || !ext.contains(fs[0] + m.size[0] - 1) || ext.contains(fs[0] - 1) || ext.contains(fs[0] + m.size[0])) violation(K + "extension-range:contains", "extension().contains() disagrees with [first, last) at the boundaries");
			for(auto i : ext) { if(n >= m.size[0]) break;
				if(L(i) != fs[0] + n) violation(K + "extension-range:value", "the " + std::to_string(n) + "-th index produced by iterating extension() is " + std::to_string(L(i)) + ", expected " + std::to_string(fs[0] + n));
				if(L(ext[n]) != fs[0] + n || L(*(ext.begin() + n)) != fs[0] + n || L(*(ext.end() - (m.size[0] - n))) != fs[0] + n) violation(K + "extension-range:random-access", "extension()[n] / *(begin()+n) / *(end()-(size-n)) disagree with first+n at n=" + std::to_string(n));
				z[0] = n; int const* want = base + m.off[std::size_t(m.lin(z))]; int const* got;
				if constexpr(D == 1) { got = std::addressof(v[i]); } else { auto&& row = v[i]; got = std::addressof(brk(row, firsts_of(row))); }
				if(got != want) violation(K + "extension-range:element", "v[i] for the " + std::to_string(n) + "-th index of extension() does not designate the " + std::to_string(n) + "-th leading position of the twin");
				++n; }
			if(n != m.size[0] || (ext.end() - ext.begin()) != m.size[0]) violation(K + "extension-range:count", "iterating extension() visits " + std::to_string(n) + " indices (end-begin=" + std::to_string(L(ext.end() - ext.begin())) + "), twin size " + std::to_string(m.size[0]));
			std::vector<L> sz; std::apply([&](auto const&... x) { (sz.push_back([&] { L c = 0, prev = 0; bool first = true, ok = true; for(auto j : x) { if(!first && L(j) != prev + 1) ok = false; prev = L(j); first = false; if(++c > 1000) break; } return ok ? c : -1; }()), ...); }, v.extensions().base());
			if(sz != m.size) violation(K + "extension-range:all-dimensions", "iterating each of extensions() visits " + join(sz, "x") + " consecutive indices, twin sizes " + m.shape());
			count("extension_ranges_walked"); }
		op((std::string(opn) + "/front-back").c_str());  // positional accessors: first and last leading POSITION, whatever the first index is
		{ std::vector<L> z0(std::size_t(D), 0), zl(std::size_t(D), 0); zl[0] = m.size[0] - 1; int const* wf = base + m.off[std::size_t(m.lin(z0))]; int const* wb = base + m.off[std::size_t(m.lin(zl))]; int const* gf; int const* gb;
			if constexpr(D == 1) { gf = std::addressof(v.front()); gb = std::addressof(v.back()); } else { auto&& f = v.front(); auto&& bk = v.back(); gf = std::addressof(brk(f, firsts_of(f))); gb = std::addressof(brk(bk, firsts_of(bk))); }
			if(gf != wf) violation(K + "front", "front() does not designate the first leading position of the twin"); if(gb != wb) violation(K + "back", "back() designates root offset " + std::to_string(gb - base) + ", the last leading position of the twin is at " + std::to_string(wb - base)); }
		count("elements_compared", N); count("views_checked");
	}

	template<class V> void final(V&& v, MV const& m) {
		if constexpr(rank_of<V> >= 2) { if(!m.has_zero()) {  // index extensions (all of them, not only the leading one) are part of view equality: the same elements under other inner first indices are another view
			op("equality-of-re-based-twins"); auto fsv = firsts_of(v); auto&& same = v.reindexed(fsv[0], fsv[1]); auto&& inner = v.reindexed(fsv[0], fsv[1] + 1); auto&& lead = v.reindexed(fsv[0] + 1, fsv[1]);
			if(!(same == v) || (same != v)) violation("C19:equality:same-extensions", "a view re-indexed to its own first indices does not compare equal to itself");
			if((inner == v) || !(inner != v)) violation("C19:equality:inner-first-index-ignored", "two views of the same elements whose SECOND first index differs compare equal");
			if((lead == v) || !(lead != v)) violation("C19:equality:leading-first-index-ignored", "two views of the same elements whose leading first index differs compare equal"); count("equality-of-re-based-twins"); } }
		constexpr int D = rank_of<V>; if(m.has_zero()) return; L const N = m.n();
		{ op("copy"); multi::array<int, D> C(v); if(tuple_to_vec(C.sizes()) != m.size) violation("C19:copy:sizes", "copy of a re-based view has other sizes"); else { for(L k = 0; k < N; ++k) if(C.data_elements()[k] != int(m.off[std::size_t(k)])) violation("C19:copy:values", "copy-constructed array differs from the twin at canonical position " + std::to_string(k)); }
			op("equality"); if(!(C == v)) violation("C19:equality:copy-not-equal", "a copy of the view does not compare equal to it"); if(C != v) violation("C19:equality:copy-different", "a copy of the view compares different");
			if(N > 0) { C.data_elements()[N / 2] ^= 1; if(C == v) violation("C19:equality:modified-copy-equal", "a modified copy still compares equal"); }
			count("op:copy+equality"); }
		{ op("assign"); multi::array<int, D> W(v.extensions(), -1); W = v; for(L k = 0; k < N; ++k) if(W.data_elements()[k] != int(m.off[std::size_t(k)])) violation("C19:assign:values", "assignment into an array of identical extensions differs from the twin at canonical position " + std::to_string(k));
			multi::array<int, D> W2(v.extensions(), -1); W2() = v; for(L k = 0; k < N; ++k) if(W2.data_elements()[k] != int(m.off[std::size_t(k)])) violation("C19:view-assign:values", "view assignment into identical extensions differs from the twin"); count("op:assign"); }
		nontrivial(eff >= 1 && elems >= 1);
	}
};

template<int D> void one(Case& c, Prog const& p) {
	std::vector<L> b; for(int d = 0; d < D; ++d) b.push_back(c.rng.in(-3, 3)); if(c.rng.chance(1, 6)) for(auto& x : b) x = 0;
	auto exts = make_extensions<D>(b, p.root); MV m = MV::root(p.root);
	describe("D=" + std::to_string(D) + " root=" + m.shape() + " bases=" + join(b) + ":"); sig_mix(std::uint64_t(D)); for(auto x : b) sig_mix(std::uint64_t(x > 0 ? 2 : (x < 0 ? 1 : 0)));
	multi::array<int, D> A(exts); { int* p0 = A.data_elements(); for(L i = 0; i < m.n(); ++i) p0[i] = int(i); }
	// reextent of a re-based array keeps the elements whose index tuple lies in both the old and the new extensions
	if(c.rng.chance(1, 4) && !m.has_zero()) { op("reextent"); std::vector<L> nb, ns; for(int d = 0; d < D; ++d) { nb.push_back(b[std::size_t(d)] + c.rng.in(-1, 1)); ns.push_back(c.rng.in(1, 4)); }
		multi::array<int, D> R2 = A; R2.reextent(make_extensions<D>(nb, ns), -5); describe(" reextent->bases=" + join(nb) + " sizes=" + join(ns, "x"));
		auto fs = firsts_of(R2); if(tuple_to_vec(R2.sizes()) != ns) violation("C19:reextent:sizes", "sizes after reextent"); else if(fs != nb) violation("C19:reextent:bases", "reextent to explicit extensions reports other first indices");
		else { MV nm = MV::root(ns); std::vector<L> ix; for(L k = 0; k < nm.n(); ++k) { nm.unlin(k, ix); bool in = true; std::vector<L> oi(ix.size()); for(int d = 0; d < D; ++d) { L gi = ix[std::size_t(d)] + nb[std::size_t(d)]; oi[std::size_t(d)] = gi - b[std::size_t(d)]; in &= oi[std::size_t(d)] >= 0 && oi[std::size_t(d)] < p.root[std::size_t(d)]; }
			int want = in ? int(m.lin(oi)) : -5; if(R2.data_elements()[k] != want) violation("C19:reextent:values", "after reextent of a re-based array the element at index " + join(ix) + "+bases holds " + std::to_string(R2.data_elements()[k]) + ", expected " + std::to_string(want)); } }
		count("op:reextent"); }
	// owning arrays: copy construction / copy assignment over any prior state / move take over the index bases together with the elements
	if(c.rng.chance(1, 3) && !m.has_zero()) { op("array-copy"); auto same = [&](multi::array<int, D> const& X, char const* what) {
			if(!(X.extensions() == A.extensions())) violation(std::string("C19:") + what + ":extensions", std::string(what) + " of a re-based array does not report the source's extensions");
			else { for(L k = 0; k < m.n(); ++k) if(X.data_elements()[k] != int(k)) violation(std::string("C19:") + what + ":values", std::string(what) + " of a re-based array holds other elements"); if(!(X == A)) violation(std::string("C19:") + what + ":not-equal", std::string(what) + " of a re-based array does not compare equal to it"); } };
		{ multi::array<int, D> C1(A); same(C1, "array-copy-ctor"); }
		{ multi::array<int, D> Z(make_extensions<D>(p.root), -1); op("array-copy-assign(same-sizes-other-bases)"); Z = A; same(Z, "array-copy-assign(same-sizes-other-bases)"); }
		{ std::vector<L> os = p.root; os[0] += 1; multi::array<int, D> Z(make_extensions<D>(os), -1); op("array-copy-assign(other-sizes)"); Z = A; same(Z, "array-copy-assign(other-sizes)"); }
		{ multi::array<int, D> Z; op("array-copy-assign(to-empty)"); Z = A; same(Z, "array-copy-assign(to-empty)"); }
		{ multi::array<int, D> T1(A); multi::array<int, D> Z(make_extensions<D>(p.root), -1); op("array-move-assign"); Z = std::move(T1); same(Z, "array-move-assign"); }
		{ multi::array<int, D> Z(make_extensions<D>(p.root), -1); op("array-assign-from-view"); Z = A(); same(Z, "array-assign-from-view"); }
		{ // the same with an allocator that does not propagate and whose instances compare unequal: move assignment / allocator-extended move construction then move the ELEMENTS into a block of their own and must take the index bases along
			using LA = ledger_alloc<int, 0>; using AL = multi::array<int, D, LA>;
			auto same_al = [&](AL const& X, char const* what) { if(!(X.extensions() == A.extensions())) violation(std::string("C19:") + what + ":extensions", std::string(what) + " of a re-based array does not report the source's extensions (first indices " + join(firsts_of(X)) + ", source " + join(b) + ")");
				else { for(L k = 0; k < m.n(); ++k) if(X.data_elements()[k] != int(k)) { violation(std::string("C19:") + what + ":values", std::string(what) + " of a re-based array holds other elements"); break; } } };
			auto mk = [&](int id) { AL S(exts, LA(id)); for(L k = 0; k < m.n(); ++k) S.data_elements()[k] = int(k); return S; };
			{ AL S = mk(1); AL Z(make_extensions<D>(p.root), -1, LA(2)); op("array-move-assign(unequal-allocators)"); Z = std::move(S); same_al(Z, "array-move-assign(unequal-allocators)"); }
			{ AL S = mk(1); AL Z(LA(2)); op("array-move-assign(unequal-allocators,to-empty)"); Z = std::move(S); same_al(Z, "array-move-assign(unequal-allocators,to-empty)"); }
			{ AL S = mk(1); AL Z(make_extensions<D>(p.root), -1, LA(2)); op("array-copy-assign(unequal-allocators)"); Z = std::as_const(S); same_al(Z, "array-copy-assign(unequal-allocators)"); }
			{ AL S = mk(1); op("array-move-ctor(other-allocator)"); AL Z(std::move(S), LA(2)); same_al(Z, "array-move-ctor(other-allocator)"); }
			{ AL S = mk(1); op("array-copy-ctor(other-allocator)"); AL Z(std::as_const(S), LA(2)); same_al(Z, "array-copy-ctor(other-allocator)"); }
			count("op:array-copy/assign(unequal-allocators)"); }
		count("op:array-copy/assign"); }
	C19Vis vis{A.data_elements(), m.n()}; Interp<C19Vis, true> I{vis, p};
	if(c.rng.chance(1, 2)) I.run(A(), m, 0, "root"); else I.run(std::as_const(A)(), m, 0, "root");
}

int main(int argc, char** argv) {
	cfg.kind_mask = ~0UL;
	return main_loop(argc, argv, [&](Case& c) {
		static bool init = false; if(!init) { init = true; auto& a = st().args;
			for(std::size_t i = 0; i < a.size(); ++i) { auto val = [&] { return i + 1 < a.size() ? std::atol(a[i + 1].c_str()) : 0; };
				if(a[i] == "--maxext") cfg.max_ext = int(val()); else if(a[i] == "--maxops") cfg.max_ops = int(val()); else if(a[i] == "--mask") cfg.kind_mask = std::strtoul(a[i + 1].c_str(), nullptr, 0); } }
		Prog p = gen_prog(c.rng, cfg, C19_D); one<C19_D>(c, p);
	});
}
