// C11 — pointer-type independence: the same programs run over raw pointers (-DC11_P=0), a minimal fancy pointer with no conversion to or
// from T* (1) and a bounds/provenance-checking pointer (2); each case prints a digest of every observable result; the driver requires
// identical digests across the three builds, zero violations recorded by the checking pointer, and that all three TUs compile.
#define VK_MAIN
#include "../kit/viewprog.hpp"
#include "../kit/fancy.hpp"
#include <boost/multi/array_ref.hpp>
#include <algorithm>
#include <numeric>
using namespace vk;

#ifndef C11_P
#define C11_P 0
#endif
#if C11_P == 0
template<class T> using Ptr = T*; template<class T> using Alloc = std::allocator<T>;
template<class T> Ptr<T> mkptr(T* p, void const*, void const*) { return p; }
#elif C11_P == 1
template<class T> using Ptr = fptr<T, false>; template<class T> using Alloc = falloc<T, false>;
template<class T> Ptr<T> mkptr(T* p, void const* lo, void const* hi) { return Ptr<T>{typename Ptr<T>::raw_t{}, p, lo, hi}; }
#else
template<class T> using Ptr = fptr<T, true>; template<class T> using Alloc = falloc<T, true>;
template<class T> Ptr<T> mkptr(T* p, void const* lo, void const* hi) { return Ptr<T>{typename Ptr<T>::raw_t{}, p, lo, hi}; }
#endif

static GenCfg cfg; static std::uint64_t dg;
static void mix(std::uint64_t v) { dg ^= v + 0x9e3779b97f4a7c15ULL + (dg << 6) + (dg >> 2); dg *= 1099511628211ULL; }
static void mixs(std::string const& s) { for(unsigned char ch : s) mix(ch); mix(s.size()); }

struct FVis {
	int const* base; Rng* g;
	template<class V> void at(V const& v, MV const& m, char const*) {
		constexpr int D = rank_of<V>; for(auto s : tuple_to_vec(v.sizes())) mix(std::uint64_t(s)); mix(std::uint64_t(v.num_elements()));
		if(m.has_zero()) return;
		{ auto sa = v.strides().to_array(); for(auto s : sa) mix(std::uint64_t(s)); }
		std::vector<L> ix; for(L k = 0; k < m.n(); ++k) { m.unlin(k, ix); int const* p = std::addressof(brk(v, ix)); mix(std::uint64_t(p - base)); if(p - base != m.off[std::size_t(k)]) violation("C11:element-identity", "an index designates another element than the table model under this pointer type"); }
		for(auto const& e : v.elements()) mix(std::uint64_t(e)); mix(std::uint64_t(v.end() - v.begin()));
		{ auto it = v.elements().begin(); L n = m.n(); it += n / 2; mix(std::uint64_t(*it)); auto jt = v.elements().end(); jt -= 1; mix(std::uint64_t(*jt)); mix(std::uint64_t(jt - it)); }
	}
	template<class V> void final(V&& v, MV const& m) {
		constexpr int D = rank_of<V>; if(m.has_zero()) return;
		if constexpr(is_mutable_view<V> && !std::is_const_v<std::remove_reference_t<V>>) { op("reinterpret_array_cast(n)"); auto&& rv = v.template reinterpret_array_cast<short>(2); for(auto s2 : tuple_to_vec(rv.sizes())) mix(std::uint64_t(s2)); for(auto const& e : rv.elements()) mix(std::uint64_t(std::uint16_t(e)));
			op("reinterpret_array_cast()"); auto&& ru = v.template reinterpret_array_cast<short>(); for(auto s2 : tuple_to_vec(ru.sizes())) mix(std::uint64_t(s2)); for(auto const& e : ru.elements()) mix(std::uint64_t(std::uint16_t(e))); }  // goes through the pointer type's own reinterpret_pointer_cast (ADL)
		if constexpr(D >= 2) {  // const_array_cast: adds or removes const on the element type, same pointer family, same elements (no dereference needed to form the view; bounds kept)
			op("const_array_cast<T const>"); { auto&& cc = v.template const_array_cast<int const>(); for(auto s2 : tuple_to_vec(cc.sizes())) mix(std::uint64_t(s2)); for(auto const& e : cc.elements()) mix(std::uint64_t(e));
				std::vector<L> ix; for(L k = 0; k < m.n(); ++k) { m.unlin(k, ix); int const* p = std::addressof(brk(cc, ix)); if(p - base != m.off[std::size_t(k)]) { violation("C11:const_array_cast<T const>:element-identity", "const_array_cast<int const>() designates another element at " + join(ix)); break; } } }
			op("const_array_cast<T>"); { auto&& mm = std::as_const(v).template const_array_cast<int>(); for(auto s2 : tuple_to_vec(mm.sizes())) mix(std::uint64_t(s2)); for(auto const& e : mm.elements()) mix(std::uint64_t(e));
				std::vector<L> ix; for(L k = 0; k < m.n(); ++k) { m.unlin(k, ix); int const* p = std::addressof(brk(mm, ix)); if(p - base != m.off[std::size_t(k)]) { violation("C11:const_array_cast<T>:element-identity", "const_array_cast<int>() designates another element at " + join(ix)); break; } } }
			{ op("const_array_cast(empty)"); multi::array<int, D, Alloc<int>> const E0; auto&& ce = E0.template const_array_cast<int const>(); mix(std::uint64_t(ce.num_elements())); }
			count("op:const_array_cast"); }
		op("owning<int>");
		multi::array<int, D, Alloc<int>> C(v); for(int e : C.elements()) mix(std::uint64_t(e)); mix(std::uint64_t(C == v)); mix(std::uint64_t(C != v));
		{ multi::array<int, D, Alloc<int>> C2(C); C2.elements()[0] += 1; mix(std::uint64_t(C < C2)); mix(std::uint64_t(C2 <= C)); mix(std::uint64_t(C2() == C())); }
		op("==(other-extents)"); { std::vector<L> be = m.size; be[0] += 1; multi::array<int, D, Alloc<int>> Big(make_extensions<D>(be), 0); { L q = 0; auto ce = C.elements().begin(); for(auto& e : Big.elements()) { e = (q < C.num_elements()) ? *ce : 0; if(q < C.num_elements()) ++ce; ++q; } }  // equal common flat prefix
			mix(std::uint64_t(C == Big)); mix(std::uint64_t(Big == C)); mix(std::uint64_t(C != Big)); multi::array_ref<int, D, Ptr<int>> CR(C.extensions(), C.data_elements()), BR(Big.extensions(), Big.data_elements()); mix(std::uint64_t(CR == BR)); mix(std::uint64_t(BR == CR)); mix(std::uint64_t(C() == Big())); }
		op("algorithms"); std::sort(C.begin(), C.end()); for(int e : C.elements()) mix(std::uint64_t(e)); { auto&& el = C.elements(); std::reverse(el.begin(), el.end()); std::rotate(el.begin(), el.begin() + el.size() / 3, el.end()); } for(int e : C.elements()) mix(std::uint64_t(e));
		op("reextent"); { std::vector<L> ne = m.size; ne[0] += 1; if(D > 1) ne[std::size_t(D - 1)] = std::max<L>(1, ne[std::size_t(D - 1)] - 1); C.reextent(make_extensions<D>(ne), 77); for(int e : C.elements()) mix(std::uint64_t(e)); C.reextent(make_extensions<D>(ne)); C.reextent(make_extensions<D>(m.size)); for(auto s : tuple_to_vec(C.sizes())) mix(std::uint64_t(s)); }
		op("view-assign"); { multi::array<int, D, Alloc<int>> E(v.extensions(), 5); E() = v; multi::array<int, D, Alloc<int>> F = E; F.elements()[0] = 9; swap(E, F); mix(std::uint64_t(E.elements()[0])); E = F.rotated(); F = std::move(E); mix(std::uint64_t(std::accumulate(F.elements().begin(), F.elements().end(), 0L))); mix(std::uint64_t(E.num_elements())); E.clear(); F = E; mix(std::uint64_t(F.num_elements()));
			// arrays that had a block and lost it (clear(), moved-from by assignment) are sized again
			E.reextent(v.extensions(), 3); mix(std::uint64_t(E.elements()[0])); multi::array<int, D, Alloc<int>> G2(v.extensions(), 8); F = std::move(G2); G2.reextent(v.extensions(), 4); mix(std::uint64_t(G2.num_elements())); G2.clear(); G2.reextent(v.extensions()); mix(std::uint64_t(G2.num_elements())); G2.clear(); G2 = v; mix(std::uint64_t(G2.elements()[0])); }
		// assign(first, last) / assign(range) into arrays that own nothing (default-constructed, cleared): nothing of the old (null or released) storage may be dereferenced
		op("assign(first,last)-into-empty"); { multi::array<int, D, Alloc<int>> Z0; Z0.assign(C.begin(), C.end()); mix(std::uint64_t(Z0 == C)); multi::array<int, D, Alloc<int>> Z1(C); Z1.clear(); Z1.assign(C.begin(), C.end()); mix(std::uint64_t(Z1.num_elements()));
			Z1.clear(); Z1.assign(C.begin(), C.end()); for(int e : Z1.elements()) mix(std::uint64_t(e)); multi::array<int, D, Alloc<int>> Z2; Z2.assign(v.begin(), v.end()); mix(std::uint64_t(Z2 == v)); Z2.assign(C.begin(), C.end()); mix(std::uint64_t(Z2 == C)); count("op:assign-into-empty"); }
		// an array assigned a NAMED read-only view of its own elements with other extents (a sub-block of itself): the source must be read before the old block is released
		op("assign-from-own-sub-block"); if(C.size() >= 2) { multi::array<int, D, Alloc<int>> Q(C); auto const& sub = std::as_const(Q).sliced(1, Q.size()); Q = sub; for(int e : Q.elements()) mix(std::uint64_t(e)); mix(std::uint64_t(Q.size())); mix(std::uint64_t(Q == C.sliced(1, C.size())));
			multi::array<int, D, Alloc<int>> Q2(C); multi::array_ref<int, D, typename multi::array<int, D, Alloc<int>>::element_ptr> R2(Q2.sliced(0, Q2.size() - 1).extensions(), Q2.base()); Q2 = R2; mix(std::uint64_t(Q2.size())); for(int e : Q2.elements()) mix(std::uint64_t(e)); count("op:assign-from-own-sub-block"); }
		// the 1-D member data(): the user's pointer type (never a raw address), usable with that type's own arithmetic, and obtainable from arrays that own nothing without a dereference
		if constexpr(D == 1) { op("data()"); using AP = typename multi::array<int, 1, Alloc<int>>::element_ptr; static_assert(std::is_same_v<std::decay_t<decltype(C.data())>, AP>, "array<T,1,A>::data() must be the allocator's pointer type");
			for(L i2 = 0; i2 < C.size(); ++i2) mix(std::uint64_t(*(C.data() + i2))); mix(std::uint64_t(*(std::as_const(C).data() + (C.size() - 1))));
			multi::array<int, 1, Alloc<int>> Z3; auto p0 = Z3.data(); mix(std::uint64_t(p0 == AP{})); multi::array<int, 1, Alloc<int>> Z4(C); Z4.clear(); auto p1 = Z4.data(); (void)p1; multi::array<int, 1, Alloc<int>> Z5(C); multi::array<int, 1, Alloc<int>> Z6(std::move(Z5)); auto p2 = Z5.data(); (void)p2; mix(std::uint64_t(Z6.size())); count("op:data()"); }
		// whole-block assignment between references over the user's pointer type (array_ref = array_ref, A.elements() = B.elements()): only that type's own arithmetic and dereference, nothing past the end
		op("array_ref=array_ref"); { using AT = multi::array<int, D, Alloc<int>>; using AP = typename AT::element_ptr; AT P1(C), P2(C); P2.elements()[0] += 3; P1.elements() = P2.elements(); mix(std::uint64_t(P1 == P2)); for(int e : P1.elements()) mix(std::uint64_t(e));
			AT P3(C), P4(C); P4.elements()[0] += 5; multi::array_ref<int, D, AP> R3(P3.extensions(), P3.base()), R4(P4.extensions(), P4.base()); R3 = R4; mix(std::uint64_t(P3 == P4)); R3 = std::as_const(R4); std::move(R3) = R4; for(int e : P3.elements()) mix(std::uint64_t(e)); count("op:array_ref=array_ref"); }
		// non-trivially destructible elements, including arrays that are (or become) empty
		op("owning<string>");
		{ using SA = multi::array<std::string, D, Alloc<std::string>>; SA S(v.extensions()); { L q = 0; for(auto& e : S.elements()) e = std::string(18, 'x') + std::to_string(q++); } SA S2(S); SA S3(S.rotated()); for(auto const& e : S3.elements()) mixs(e);
			S2.reextent(make_extensions<D>(std::vector<L>(std::size_t(D), 0))); mix(std::uint64_t(S2.num_elements())); S3.clear(); mix(std::uint64_t(S3.num_elements())); { SA Z; mix(std::uint64_t(Z.num_elements())); SA Z2(std::move(S)); mix(std::uint64_t(Z2.num_elements())); mix(std::uint64_t(S.num_elements())); Z = Z2; S = std::move(Z); for(auto const& e : S.elements()) mixs(e); }
			{ std::vector<L> ze = m.size; ze[0] = 0; SA Z0(make_extensions<D>(ze)); mix(std::uint64_t(Z0.num_elements())); Z0 = S2; SA Z1(Z0); mix(std::uint64_t(Z1.num_elements())); } }
		// static_array's move constructor allocates and moves the ELEMENTS (element-by-element path over the user's pointer type): non-empty, trivially copyable and not, and empty
		op("static_array-move");
		{ using SS = multi::static_array<std::string, D, Alloc<std::string>>; SS T1(v.extensions(), std::string(20, 'm')); SS T2(std::move(T1)); for(auto const& e : T2.elements()) mixs(e); mix(std::uint64_t(T1.num_elements()));
			using SI = multi::static_array<int, D, Alloc<int>>; SI I1(v.extensions(), 6); SI I2(std::move(I1)); for(int e : I2.elements()) mix(std::uint64_t(e)); SI I3(std::as_const(I2)); mix(std::uint64_t(I3.num_elements()));
			std::vector<L> ze = m.size; ze[0] = 0; SS E1(make_extensions<D>(ze)); SS E2(std::move(E1)); mix(std::uint64_t(E2.num_elements())); count("op:static_array-move"); }
		nontrivial();
	}
};

template<int D> void one(Case& c, Prog const& p) {
	auto exts = make_extensions<D>(p.root); MV m = MV::root(p.root); L const n = m.n(); sig_mix(std::uint64_t(D)); for(auto s : p.root) sig_mix(std::uint64_t(s)); describe("D=" + std::to_string(D) + " root=" + m.shape() + ":");
	std::vector<int> buf(std::size_t(n + 16), -3); for(L i = 0; i < n; ++i) buf[std::size_t(8 + i)] = int((i * 7) % 11);
	multi::array_ref<int, D, Ptr<int>> R(exts, mkptr(buf.data() + 8, buf.data() + 8, buf.data() + 8 + n));
	FVis vis{buf.data() + 8, &c.rng}; Interp<FVis> I{vis, p}; I.run(R(), m, 0, "root");
}

int main(int argc, char** argv) {
	int rc = main_loop(argc, argv, [&](Case& c) {
		static bool init = false; if(!init) { init = true; auto& a = st().args; for(std::size_t i = 0; i + 1 < a.size(); ++i) { if(a[i] == "--maxext") cfg.max_ext = std::atoi(a[i + 1].c_str()); if(a[i] == "--maxops") cfg.max_ops = std::atoi(a[i + 1].c_str()); } }
		dg = 1469598103934665603ULL; Prog p = gen_prog(c.rng, cfg);
		switch(p.root.size()) { case 1: one<1>(c, p); break; case 2: one<2>(c, p); break; case 3: one<3>(c, p); break; default: one<4>(c, p); break; }
		// (the digest is emitted also when the checking pointer recorded something: a recorded finding must not switch off the differential)
		char b[64]; std::snprintf(b, sizeof b, "G %ld %016llx", c.k, static_cast<unsigned long long>(dg)); emit(b);
		count("fancy_dereferences", pstats().derefs); pstats().derefs = 0;
	});
	return rc;
}
