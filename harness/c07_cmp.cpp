// C07 — equality and ordering: relational operators on pairs/triples of operands of every ownership kind and layout vs. a nested-vector model.
#define VK_MAIN
#include "../kit/viewprog.hpp"
#include <boost/multi/array_ref.hpp>
#include <limits>
using namespace vk;

#ifndef C07_D
#define C07_D 2
#endif
constexpr int D = C07_D;

struct NV { std::vector<L> ext; std::vector<int> v;  // logical contents, canonical order
	L n() const { L r = 1; for(auto e : ext) r *= e; return r; }
	bool empty() const { return n() == 0; } };

static bool m_eq(NV const& a, NV const& b) { return a.ext == b.ext && a.v == b.v; }
// recursive lexicographic order over the leading dimension; a proper prefix is smaller
static int m_cmp_rec(NV const& a, L oa, NV const& b, L ob, std::size_t d) {  // -1,0,+1
	if(d == a.ext.size()) { int x = a.v[std::size_t(oa)], y = b.v[std::size_t(ob)]; return x < y ? -1 : (y < x ? 1 : 0); }
	L sa = 1, sb = 1; for(std::size_t k = d + 1; k < a.ext.size(); ++k) { sa *= a.ext[k]; sb *= b.ext[k]; }
	L const na = a.ext[d], nb = b.ext[d];
	for(L i = 0; i < std::min(na, nb); ++i) { int c = m_cmp_rec(a, oa + i * sa, b, ob + i * sb, d + 1); if(c) return c; }
	return na < nb ? -1 : (nb < na ? 1 : 0);
}
static bool m_less(NV const& a, NV const& b) { return m_cmp_rec(a, 0, b, 0, 0) < 0; }

// ---- detection of operators (availability table goes to the evidence)
#define DETECT(NAME, OP) template<class A, class B, class = void> struct NAME : std::false_type {}; \
	template<class A, class B> struct NAME<A, B, std::void_t<decltype(bool(std::declval<A const&>() OP std::declval<B const&>()))>> : std::true_type {};
DETECT(has_eq, ==) DETECT(has_ne, !=) DETECT(has_lt, <) DETECT(has_le, <=) DETECT(has_gt, >) DETECT(has_ge, >=)

static char const* KIND[] = {"array", "array-const", "block-view", "transposed-view", "strided-view", "array_ref", "array-long", "unrotated-view", "subarray()"};
constexpr int NKIND = 9;

template<class T> void fill_by_model(T* base, MV const& mv, NV const& x) { for(L k = 0; k < x.n(); ++k) base[mv.off[std::size_t(k)]] = T(x.v[std::size_t(k)]); }

// build an operand of the given kind with logical contents x and pass it (as const&) to f; returns false if the kind is not applicable
template<class F, int DD = D> bool with_operand(int kind, NV const& x, F&& f) {
	if constexpr(DD == 0) {
		if(kind == 6) { multi::array<long, 0> A(long(x.v[0])); f(A); return true; }
		multi::array<int, 0> A(x.v[0]); if(kind == 1) { f(std::as_const(A)); } else { f(A); } return true;
	} else {
		auto const& e = x.ext; MV root = MV::root(e);
		switch(kind) {
		case 0: case 1: case 8: { multi::array<int, D> A(make_extensions<D>(e)); fill_by_model(A.data_elements(), root, x); if(kind == 8) { f(A()); } else { f(std::as_const(A)); } return true; }
		case 2: { std::vector<L> pe = e; for(auto& s : pe) s += 2; multi::array<int, D> P(make_extensions<D>(pe), -9); MV pm = MV::root(pe);
			std::vector<CallArg> as; for(int d = 0; d < D; ++d) as.push_back(CallArg{1, 1, e[std::size_t(d)] + 1}); MV vm = m_call(pm, as); fill_by_model(P.data_elements(), vm, x);
			std::array<multi::irange, std::size_t(D)> rs; for(int d = 0; d < D; ++d) rs[std::size_t(d)] = multi::irange{1, e[std::size_t(d)] + 1};
			std::apply([&](auto... r) { f(std::as_const(P)(r...)); }, rs); return true; }
		case 3: if constexpr(DD >= 2) { std::vector<L> te = e; std::swap(te[0], te[1]); multi::array<int, DD> Tt(make_extensions<DD>(te), -9); MV vm = m_transposed(MV::root(te)); fill_by_model(Tt.data_elements(), vm, x); f(std::as_const(Tt).transposed()); return true; } return false;
		case 4: { std::vector<L> se = e; se[0] *= 2; multi::array<int, D> S(make_extensions<D>(se), -9); MV vm = m_strided(MV::root(se), 2); fill_by_model(S.data_elements(), vm, x); f(S.strided(2)); return true; }
		case 5: { std::vector<int> buf(std::size_t(x.n()) + 8, -9); fill_by_model(buf.data() + 4, root, x); multi::array_ref<int, D> R(make_extensions<D>(e), buf.data() + 4); f(std::as_const(R)); return true; }
		case 6: { multi::array<long, D> A(make_extensions<D>(e)); fill_by_model(A.data_elements(), root, x); f(std::as_const(A)); return true; }
		default: if constexpr(DD >= 2) { std::vector<L> ue(e.begin() + 1, e.end()); ue.push_back(e[0]); multi::array<int, DD> U(make_extensions<DD>(ue), -9); MV vm = m_unrotated(MV::root(ue)); fill_by_model(U.data_elements(), vm, x); f(std::as_const(U).unrotated()); return true; } return false;
		}
	}
}

static std::string shp(NV const& x) { return join(x.ext, "x") + "[" + join(x.v, "") + "]"; }

template<class A, class B> void compare(A const& a, B const& b, NV const& x, NV const& y, std::string const& kp) {
	bool const eq = m_eq(x, y), lt = m_less(x, y), gt = m_less(y, x); bool const anyempty = x.empty() || y.empty();
	auto K = [&](char const* w) { return std::string("C07:D") + std::to_string(D) + ":" + w + ":" + kp; };
	auto D_ = [&](char const* opn, bool got, bool want) { return std::string(opn) + " returned " + (got ? "true" : "false") + ", model says " + (want ? "true" : "false") + " for a=" + shp(x) + " b=" + shp(y); };
	bool const samesz = x.ext == y.ext; char const* cls = anyempty ? "empty" : (samesz ? "same-extents" : (x.n() == y.n() ? "same-count-other-extents" : "other-extents"));
	if constexpr(has_eq<A, B>::value && has_ne<A, B>::value) { op("==/!="); bool r = bool(a == b), n = bool(a != b); count(std::string("avail:==:") + kp);
		if(r == n) violation(K("ne-is-not-negation"), std::string("a==b and a!=b both ") + (r ? "true" : "false") + " for a=" + shp(x) + " b=" + shp(y) + " (" + cls + ")");
		if(!anyempty) { if(r != eq) violation(K("eq") + ":" + cls, D_("==", r, eq)); }
		count("evaluated:=="); }
	else { count(std::string("unavailable:==:") + kp); }
	if(anyempty) return;
	bool have_lt = false, rlt = false;
	if constexpr(has_lt<A, B>::value) { op("<"); rlt = bool(a < b); have_lt = true; count(std::string("avail:<:") + kp); if(rlt != lt) violation(K("lt"), D_("<", rlt, lt)); count("evaluated:<"); } else { count(std::string("unavailable:<:") + kp); }
	if constexpr(has_gt<A, B>::value) { op(">"); bool r = bool(a > b); if(r != gt) violation(K("gt"), D_(">", r, gt)); count("evaluated:>"); } else { count(std::string("unavailable:>:") + kp); }
	if constexpr(has_le<A, B>::value) { op("<="); bool r = bool(a <= b); if(r != (lt || eq)) violation(K("le"), D_("<=", r, lt || eq)); count("evaluated:<="); } else { count(std::string("unavailable:<=:") + kp); }
	if constexpr(has_ge<A, B>::value) { op(">="); bool r = bool(a >= b); if(r != (gt || eq)) violation(K("ge"), D_(">=", r, gt || eq)); count("evaluated:>="); } else { count(std::string("unavailable:>=:") + kp); }
	if constexpr(has_lt<A, B>::value && has_lt<B, A>::value && has_eq<A, B>::value) { op("trichotomy"); int c = int(bool(a < b)) + int(bool(a == b)) + int(bool(b < a)); if(c != 1) violation(K("trichotomy"), "not exactly one of a<b, a==b, b<a holds (" + std::to_string(c) + ") for a=" + shp(x) + " b=" + shp(y)); }
	(void)have_lt;
}

static NV gen(Rng& g, int maxext, bool allow_zero) { NV x; for(int d = 0; d < D; ++d) { L e = g.in(1, maxext); if(allow_zero && g.chance(1, 25)) e = 0; x.ext.push_back(e); } x.v.resize(std::size_t(x.n())); for(auto& e : x.v) e = int(g.below(2)); return x; }
static NV related(Rng& g, NV const& a, int maxext) {  // b close to a: same / one flip / other extents (prefix, inner change, permuted extents with the same flat sequence)
	NV b = a; if(D == 0) { if(g.chance(1, 2)) b.v[0] ^= 1; return b; }
	switch(g.below(8)) {
	case 0: case 1: break;
	case 2: case 3: if(!b.v.empty()) b.v[std::size_t(g.below(b.n()))] ^= 1; break;
	case 4: if(D >= 2) { std::size_t i = std::size_t(g.below(D)), j = std::size_t(g.below(D)); std::swap(b.ext[i], b.ext[j]); } break;  // same flat sequence, permuted extents
	case 5: { std::size_t d = std::size_t(g.below(D)); b.ext[d] = std::max<L>(1, b.ext[d] + (g.chance(1, 2) ? 1 : -1)); NV o = b; o.v.assign(std::size_t(o.n()), 0);  // grow/shrink one dimension keeping common index tuples
		std::vector<L> ix; MV ma = MV::root(a.ext), mo = MV::root(o.ext); for(L k = 0; k < o.n(); ++k) { mo.unlin(k, ix); bool in = true; for(int q = 0; q < D; ++q) in &= ix[std::size_t(q)] < a.ext[std::size_t(q)]; o.v[std::size_t(k)] = in ? a.v[std::size_t(ma.lin(ix))] : int(g.below(2)); } b = o; break; }
	case 6: if(D >= 2 && !b.v.empty()) { L n = b.n(); std::vector<L> f; for(L q = 1; q <= n; ++q) if(n % q == 0) f.push_back(q); if(D == 2) { L q = f[std::size_t(g.below(L(f.size())))]; b.ext = {q, n / q}; } } break;  // same count, same flat sequence, other factorisation
	default: b = gen(g, maxext, false); break;
	}
	return b;
}

static int MAXEXT = 3;

// floating-point elements whose == is not a bit comparison: +0.0 == -0.0 (different bytes), NaN != NaN (same bytes). Equality of arrays, references
// and views is element-wise equality, whatever the ownership kind.
template<int DD = D> void float_probe(Case& c) {
	if constexpr(DD >= 1) {
		Rng& g = c.rng; std::vector<L> e; for(int d = 0; d < DD; ++d) e.push_back(g.in(1, 3)); auto ext = make_extensions<DD>(e); L n = 1; for(auto q : e) n *= q;
		multi::array<double, DD> P(ext, 1.5), N(ext, 1.5); L const z = g.below(n); P.data_elements()[z] = +0.0; N.data_elements()[z] = -0.0; describe(" + float probe " + join(e, "x")); op("float-probe"); count("float_probes");
		std::vector<double> pb(P.data_elements(), P.data_elements() + n), nb(N.data_elements(), N.data_elements() + n); multi::array_ref<double, DD> PR(ext, pb.data()), NR(ext, nb.data());
		auto chk = [&](bool eq, bool ne, char const* what, char const* which) { if(!eq || ne) violation(std::string("C07:D") + std::to_string(DD) + ":float:" + which + ":" + what, std::string(what) + ": operands that differ only in the sign of a zero must compare equal (== " + (eq ? "true" : "false") + ", != " + (ne ? "true" : "false") + ")"); };
		chk(P == N, P != N, "array~array", "signed-zero"); chk(PR == NR, PR != NR, "array_ref~array_ref", "signed-zero"); chk(P == NR, P != NR, "array~array_ref", "signed-zero"); chk(P() == N(), P() != N(), "view~view", "signed-zero"); chk(P == N(), P != N(), "array~view", "signed-zero");
		chk(P.elements() == N.elements(), P.elements() != N.elements(), "elements~elements", "signed-zero"); chk(std::as_const(PR) == std::as_const(N), std::as_const(PR) != std::as_const(N), "array_ref-const~array-const", "signed-zero");
		if constexpr(has_lt<multi::array<double, DD>, multi::array<double, DD>>::value) { if(bool(P < N) || bool(N < P)) violation(std::string("C07:D") + std::to_string(DD) + ":float:signed-zero:ordering", "arrays that compare equal are ordered"); }
		multi::array<double, DD> Q = P; Q.data_elements()[z] = std::numeric_limits<double>::quiet_NaN(); std::vector<double> qb(Q.data_elements(), Q.data_elements() + n); multi::array_ref<double, DD> QR(ext, qb.data()); multi::array<double, DD> Q2 = Q;
		auto chn = [&](bool eq, bool ne, char const* what) { if(eq || !ne) violation(std::string("C07:D") + std::to_string(DD) + ":float:nan:" + what, std::string(what) + ": operands holding a NaN at the same index are not element-wise equal (== " + (eq ? "true" : "false") + ", != " + (ne ? "true" : "false") + ")"); };
		chn(Q == Q2, Q != Q2, "array~array"); chn(QR == Q2, QR != Q2, "array_ref~array"); chn(Q() == Q2(), Q() != Q2(), "view~view"); chn(Q == Q2(), Q != Q2(), "array~view");
	} else { (void)c; }
}

// Elements that are only partially ordered (doubles with NaN): the six operators keep their definitions - `<` is std::lexicographical_compare with the elements' `<`, `==` is
// element-wise, `<=` is (`<` or `==`), `>`/`>=` are the mirrored forms - so `a <= b` must not become true for operands that are neither less nor equal.
// (Trichotomy is not demanded here: with an unordered pair at the first difference none of a<b, a==b, b<a holds, by the elements' own order.)
template<int DD = D> void unordered_probe(Case& c) {
	if constexpr(DD == 1 || DD == 2) {
		Rng& g = c.rng; double const nan = std::numeric_limits<double>::quiet_NaN(); L const n = g.in(1, 4), m2 = g.in(1, 4); auto val = [&] { L r = g.below(4); return r == 3 ? nan : double(r); };
		std::vector<double> x, y; for(L k = 0; k < n; ++k) x.push_back(val()); y = x; if(g.chance(2, 3)) { y.resize(std::size_t(m2), 0.0); for(L k = 0; k < m2; ++k) if(k >= n || g.chance(1, 3)) y[std::size_t(k)] = val(); }
		auto show = [](std::vector<double> const& v) { std::string s = "["; for(double d : v) s += (d != d ? std::string("NaN") : std::to_string(int(d))) + " "; return s + "]"; };
		describe(" unordered-elements probe a=" + show(x) + " b=" + show(y)); sig_mix("unordered"); sig_mix(std::uint64_t(x.size() * 8 + y.size())); op("unordered-probe"); count("unordered-element-probes");
		bool const lt = std::lexicographical_compare(x.begin(), x.end(), y.begin(), y.end()), gt = std::lexicographical_compare(y.begin(), y.end(), x.begin(), x.end()), eq = x.size() == y.size() && std::equal(x.begin(), x.end(), y.begin());
		bool const self_eq = std::equal(x.begin(), x.end(), x.begin());
		auto six_ = [&](auto const& a, auto const& b, char const* kp, bool lt, bool gt, bool eq) { using A = std::decay_t<decltype(a)>; using B = std::decay_t<decltype(b)>;
			auto K = [&](char const* w) { return std::string("C07:D1:unordered-elements:") + w + ":" + kp; }; auto Dt = [&](char const* o, bool got, bool want) { return std::string(o) + " returned " + (got ? "true" : "false") + ", the definition gives " + (want ? "true" : "false") + " for a=" + show(x) + " b=" + show(y); };
			if constexpr(has_eq<A, B>::value) { bool r = bool(a == b); if(r != eq) violation(K("eq"), Dt("==", r, eq)); } if constexpr(has_ne<A, B>::value) { bool r = bool(a != b); if(r == eq) violation(K("ne"), Dt("!=", r, !eq)); }
			if constexpr(has_lt<A, B>::value) { bool r = bool(a < b); if(r != lt) violation(K("lt"), Dt("<", r, lt)); } if constexpr(has_gt<A, B>::value) { bool r = bool(a > b); if(r != gt) violation(K("gt"), Dt(">", r, gt)); }
			if constexpr(has_le<A, B>::value) { bool r = bool(a <= b); if(r != (lt || eq)) violation(K("le"), Dt("<=", r, lt || eq)); count("evaluated:<=(unordered)"); } if constexpr(has_ge<A, B>::value) { bool r = bool(a >= b); if(r != (gt || eq)) violation(K("ge"), Dt(">=", r, gt || eq)); count("evaluated:>=(unordered)"); } };
		auto six = [&](auto const& a, auto const& b, char const* kp) { if(std::string(kp).find("itself") != std::string::npos) six_(a, b, kp, false, false, self_eq); else six_(a, b, kp, lt, gt, eq); };
		multi::array<double, 1> A1(multi::extensions_t<1>{L(x.size())}), B1(multi::extensions_t<1>{L(y.size())}); std::copy(x.begin(), x.end(), A1.begin()); std::copy(y.begin(), y.end(), B1.begin());
		six(A1, B1, "array~array"); six(A1(), B1(), "view~view"); six(std::as_const(A1)(), std::as_const(B1)(), "const-view~const-view"); six(A1, A1, "array~itself");
		multi::array<double, 2> R({2, L(x.size())}, 0.0), C({L(y.size()), 3}, 0.0); std::copy(x.begin(), x.end(), R[1].begin()); std::copy(y.begin(), y.end(), (~C)[2].begin());
		multi::array<double, 2> R2({2, L(y.size())}, 0.0); std::copy(y.begin(), y.end(), R2[0].begin()); six(R[1], R2[0], "row~row"); six(R[1], R[1], "row~itself");
		multi::array<double, 2> C1({L(x.size()), 2}, 0.0); std::copy(x.begin(), x.end(), (~C1)[0].begin()); six((~C1)[0], (~C)[2], "column~column");
		multi::array_ref<double, 1> XR(multi::extensions_t<1>{L(x.size())}, x.data()), YR(multi::extensions_t<1>{L(y.size())}, y.data()); six(XR, YR, "array_ref~array_ref");
	} else { (void)c; }
}

int main(int argc, char** argv) {
	return main_loop(argc, argv, [&](Case& c) {
		static bool init = false; if(!init) { init = true; auto& a = st().args; for(std::size_t i = 0; i + 1 < a.size(); ++i) if(a[i] == "--maxext") MAXEXT = std::atoi(a[i + 1].c_str()); }
		if(c.k % 10 == 7) { float_probe(c); nontrivial(); return; }
		if(D == 1 && c.k % 10 == 3) { unordered_probe(c); nontrivial(); return; }
		Rng& g = c.rng; bool const triple = g.chance(1, 5);
		NV x = gen(g, MAXEXT, true), y = related(g, x, MAXEXT);
		if(!triple) {
			int ka = int(g.below(NKIND)), kb = int(g.below(NKIND)); std::string kp = std::string(KIND[ka]) + "~" + KIND[kb];
			describe("D=" + std::to_string(D) + " pair " + kp + " a=" + shp(x) + " b=" + shp(y)); sig_mix(std::uint64_t(ka * 16 + kb)); sig_mix(std::uint64_t(x.ext == y.ext ? 1 : (x.n() == y.n() ? 2 : 3))); sig_mix(std::uint64_t(m_eq(x, y) ? 1 : (m_less(x, y) ? 2 : 3)));
			bool ok = with_operand(ka, x, [&](auto const& a) { with_operand(kb, y, [&](auto const& b) { compare(a, b, x, y, kp); nontrivial(!x.empty() && !y.empty()); }); });
			(void)ok;
			constexpr int DD2 = D; if(D >= 2 && g.chance(1, 4) && !x.empty() && x.ext[0] == x.ext[1]) {  // two views of the SAME storage with different layouts
				multi::array<int, (D >= 2 ? D : 2)> R(make_extensions<(D >= 2 ? D : 2)>(x.ext)); fill_by_model(R.data_elements(), MV::root(x.ext), x);
				if constexpr(DD2 >= 2) { NV t = x; MV tm = m_transposed(MV::root(x.ext)); for(L k = 0; k < x.n(); ++k) t.v[std::size_t(k)] = x.v[std::size_t(tm.off[std::size_t(k)])];
					describe(" +alias(R(),R.transposed())"); compare(R(), R.transposed(), x, t, "alias-view~alias-transposed"); compare(std::as_const(R), R.transposed(), x, t, "array-const~alias-transposed"); count("aliased_pairs"); }
			}
		} else {
			static int const TK[3] = {0, 2, 3}; int ka = TK[g.below(3)], kb = TK[g.below(3)], kc = TK[g.below(3)]; if(D < 2) { if(ka == 3) ka = 2; if(kb == 3) kb = 2; if(kc == 3) kc = 2; }
			NV z = related(g, y, MAXEXT); if(x.empty() || y.empty() || z.empty()) return;
			describe("D=" + std::to_string(D) + " triple a=" + shp(x) + " b=" + shp(y) + " c=" + shp(z)); sig_mix(std::uint64_t(1000 + ka * 100 + kb * 10 + kc));
			with_operand(ka, x, [&](auto const& a) { with_operand(kb, y, [&](auto const& b) { with_operand(kc, z, [&](auto const& cc) {
				using A = std::decay_t<decltype(a)>; using B = std::decay_t<decltype(b)>; using C = std::decay_t<decltype(cc)>;
				if constexpr(has_lt<A, B>::value && has_lt<B, C>::value && has_lt<A, C>::value) { op("transitivity<"); if(bool(a < b) && bool(b < cc) && !bool(a < cc)) violation("C07:D" + std::to_string(D) + ":transitivity-lt", "a<b and b<c but not a<c for a=" + shp(x) + " b=" + shp(y) + " c=" + shp(z));
					if(!bool(a < b) && !bool(b < a) && !bool(b < cc) && !bool(cc < b) && (bool(a < cc) || bool(cc < a))) violation("C07:D" + std::to_string(D) + ":transitivity-equiv", "incomparability is not transitive for a=" + shp(x) + " b=" + shp(y) + " c=" + shp(z)); count("evaluated:transitivity"); }
				if constexpr(has_eq<A, B>::value && has_eq<B, C>::value && has_eq<A, C>::value) { op("transitivity=="); if(bool(a == b) && bool(b == cc) && !bool(a == cc)) violation("C07:D" + std::to_string(D) + ":transitivity-eq", "a==b and b==c but not a==c");
					if constexpr(has_lt<A, C>::value && has_lt<B, C>::value) { if(bool(a == b) && (bool(a < cc) != bool(b < cc))) violation("C07:D" + std::to_string(D) + ":eq-not-congruent-with-lt", "a==b but (a<c) != (b<c) for a=" + shp(x) + " b=" + shp(y) + " c=" + shp(z)); } }
				nontrivial();
			}); }); });
		}
	});
}
