// C14 — LAPACK adaptor: reconstruction residuals on guarded, padded, row-/column-major views.   -DC14_R: 1 potrf, 2 geqrf, 3 gesvd
#define VK_MAIN
#include "../kit/vk.hpp"
#ifndef C14_R
#define C14_R 1
#endif
#if C14_R == 1
#include <boost/multi/adaptors/lapack/potrf.hpp>
#elif C14_R == 2
#include <boost/multi/adaptors/lapack/geqrf.hpp>
#else
#include <boost/multi/adaptors/lapack/gesvd.hpp>
#endif
#include <boost/multi/array.hpp>
#include <cmath>
using namespace vk; namespace multi = boost::multi; namespace ml = boost::multi::lapack;
constexpr L G = 64; constexpr double FILL = -7777.0;

struct Buf { std::vector<double> s; L rows = 0, cols = 0; void shape(L r, L c) { rows = r; cols = c; s.assign(std::size_t(r * c + 2 * G), FILL); } auto ref() { return multi::array_ref<double, 2>({rows, cols}, s.data() + G); }
	long stray() const { long c = 0; for(auto e : s) c += (e != FILL); return c; } };
static char const* MK[] = {"Nc", "Np", "Tc", "Tp"};
static auto mkm(Buf& Rb, int kind, L m, L n) {
	switch(kind) {
	case 0: Rb.shape(m, n); return Rb.ref()({0, m}, {0, n});
	case 1: Rb.shape(m + 2, n + 3); return Rb.ref()({1, m + 1}, {2, n + 2});
	case 2: Rb.shape(n, m); return Rb.ref()({0, n}, {0, m}).transposed();
	default: Rb.shape(n + 3, m + 2); return Rb.ref()({2, n + 2}, {1, m + 1}).transposed();
	} }
static int MAXN = 6;

int main(int argc, char** argv) {
	return main_loop(argc, argv, [&](Case& c) {
		static bool init = false; if(!init) { init = true; auto& a = st().args; for(std::size_t i = 0; i + 1 < a.size(); ++i) if(a[i] == "--maxn") MAXN = std::atoi(a[i + 1].c_str()); }
		Rng& g = c.rng; st().assert_throws = true;
#if C14_R == 1
		L const n = g.in(1, MAXN); int const kind = int(g.below(4)); bool const upper = g.chance(1, 2); bool const indefinite = n >= 2 && g.chance(1, 4); L const p = indefinite ? g.in(2, n) : n + 1;  // first non-positive leading minor (1-based), n+1: none
		std::vector<double> M(std::size_t(n * n)), S(std::size_t(n * n)); for(auto& e : M) e = double(g.below(5)) - 2;
		for(L i = 0; i < n; ++i) for(L j = 0; j < n; ++j) { double s = (i == j) ? double(n) : 0.0; for(L k = 0; k < n; ++k) s += M[std::size_t(i * n + k)] * M[std::size_t(j * n + k)]; S[std::size_t(i * n + j)] = s; }
		if(indefinite) S[std::size_t((p - 1) * n + (p - 1))] = -100.0;
		Buf Rb; auto&& A = mkm(Rb, kind, n, n); for(L i = 0; i < n; ++i) for(L j = 0; j < n; ++j) A[i][j] = S[std::size_t(i * n + j)];
		std::string const K = std::string("C14:potrf:") + MK[kind] + (upper ? ":upper:" : ":lower:") + (indefinite ? "indefinite:" : "spd:");
		describe(std::string("potrf ") + MK[kind] + (upper ? " upper" : " lower") + " n=" + std::to_string(n) + (indefinite ? " first-bad-minor=" + std::to_string(p) : " spd")); sig_mix(K.c_str()); sig_mix(std::uint64_t(std::min<L>(n, 3))); nontrivial(n >= 2);
		op((std::string("potrf:") + MK[kind]).c_str());
		try { auto&& F = ml::potrf(upper ? ml::filling::upper : ml::filling::lower, A); L const q = F.size(); L const want = indefinite ? p - 1 : n;
			if(q != want) violation(K + "returned-block-size", "potrf returned a block of order " + std::to_string(q) + ", expected " + std::to_string(want));
			double err = 0, scale = 1; for(auto e : S) scale = std::max(scale, std::abs(e));
			for(L i = 0; i < std::min(q, want); ++i) for(L j = 0; j < std::min(q, want); ++j) { if(upper ? (j < i) : (j > i)) continue; double s = 0; for(L k = 0; k <= std::min(i, j); ++k) { double a = upper ? A[k][i] : A[i][k]; double b = upper ? A[k][j] : A[j][k]; s += a * b; } err = std::max(err, std::abs(s - S[std::size_t(i * n + j)])); }
			if(err > 50 * double(n) * 2.3e-16 * scale) violation(K + "reconstruction", "factor * factor' differs from the selected triangle by " + std::to_string(err));
			{ double errF = 0; L const qq = std::min(q, want); if(L(F.rotated().size()) < q) violation(K + "returned-block-too-narrow", "the returned block has fewer columns than its order");  // the same residual read through the returned view (row-major operands return q rows of full width: only .size() is documented)
				else { for(L i = 0; i < qq; ++i) for(L j = 0; j < qq; ++j) { if(upper ? (j < i) : (j > i)) continue; double s = 0; for(L k = 0; k <= std::min(i, j); ++k) { double a = upper ? F[k][i] : F[i][k]; double b = upper ? F[k][j] : F[j][k]; s += a * b; } errF = std::max(errF, std::abs(s - S[std::size_t(i * n + j)])); }
					if(errF > 50 * double(n) * 2.3e-16 * scale && !(err > 50 * double(n) * 2.3e-16 * scale)) violation(K + "returned-view-reconstruction", "the selected triangle of the RETURNED view does not reproduce the input (residual " + std::to_string(errF) + ") although the operated view does"); } }
			bool other = true; for(L i = 0; i < n; ++i) for(L j = 0; j < n; ++j) if(upper ? (j < i) : (j > i)) other &= (A[i][j] == S[std::size_t(i * n + j)]); if(!other) violation(K + "other-triangle-modified", "the triangle that was not selected was modified");
			for(L i = 0; i < n; ++i) for(L j = 0; j < n; ++j) A[i][j] = FILL; if(Rb.stray()) violation(K + "outside-view-written", "elements outside the operated view were overwritten"); count("computed"); count(std::string("acc:potrf:") + MK[kind] + (upper ? ":upper" : ":lower") + ":computed");
		} catch(assertion_failure const&) { count("rejected:assertion"); count(std::string("acc:potrf:") + MK[kind] + (upper ? ":upper" : ":lower") + ":rejected"); violation(K + "rejected", "potrf rejected (assertion) an operand of a kind it accepts: row-/column-major, contiguous or padded"); } catch(std::exception const& e) { count("rejected:exception"); count(std::string("acc:potrf:") + MK[kind] + (upper ? ":upper" : ":lower") + ":rejected"); violation(K + "rejected", std::string("potrf rejected an operand of a kind it accepts: ") + e.what()); }
		// the leading K rows of a row-major matrix (the shape potrf itself returns after a partial factorisation), as an array and as an iterator pair: the leading K x K block is
		// factorised in the selected triangle and NOTHING else of the matrix is written
		if(kind <= 1 && n >= 3 && !indefinite && c.k % 3 == 1) { L const kk = g.in(1, n - 1); bool const iter = g.chance(1, 2); std::string const K2 = std::string("C14:potrf(leading-rows):") + MK[kind] + (iter ? ":iterators:" : ":block:") + (upper ? "upper:" : "lower:");
			for(L i = 0; i < n; ++i) for(L j = 0; j < n; ++j) A[i][j] = S[std::size_t(i * n + j)]; op("potrf:leading-rows"); count("potrf:leading-rows");
			try { L q = -1; if(iter) { auto last = ml::potrf(upper ? ml::filling::upper : ml::filling::lower, A.begin(), A.begin() + kk); q = L(last - A.begin()); } else { auto&& F2 = ml::potrf(upper ? ml::filling::upper : ml::filling::lower, A({0, kk})); q = F2.size(); }
				if(q != kk) violation(K2 + "returned-order", "potrf of the leading " + std::to_string(kk) + " rows of a positive definite " + std::to_string(n) + "x" + std::to_string(n) + " matrix reports order " + std::to_string(q));
				double err = 0, scale = 1; for(auto e : S) scale = std::max(scale, std::abs(e));
				for(L i = 0; i < kk; ++i) for(L j = 0; j < kk; ++j) { if(upper ? (j < i) : (j > i)) continue; double s2 = 0; for(L k2 = 0; k2 <= std::min(i, j); ++k2) { double a = upper ? A[k2][i] : A[i][k2]; double b = upper ? A[k2][j] : A[j][k2]; s2 += a * b; } err = std::max(err, std::abs(s2 - S[std::size_t(i * n + j)])); }
				if(err > 50 * double(n) * 2.3e-16 * scale) violation(K2 + "reconstruction", "the factor of the leading block does not reproduce it (residual " + std::to_string(err) + ")");
				long touched = 0; for(L i = 0; i < n; ++i) for(L j = 0; j < n; ++j) { bool const sel = i < kk && j < kk && (upper ? (j >= i) : (j <= i)); if(!sel && !(A[i][j] == S[std::size_t(i * n + j)])) ++touched; }
				if(touched) violation(K2 + "outside-selected-block-written", std::to_string(touched) + " elements outside the selected triangle of the leading block were overwritten");
				for(L i = 0; i < n; ++i) for(L j = 0; j < n; ++j) A[i][j] = FILL; if(Rb.stray()) violation(K2 + "outside-view-written", "elements outside the matrix were overwritten");
			} catch(assertion_failure const&) { count("leading-rows:rejected(assertion)"); } catch(std::exception const&) { count("leading-rows:rejected(exception)"); } }
#elif C14_R == 2
		L const m = g.in(1, MAXN), n = g.in(1, MAXN); int const kind = int(g.below(4));
		std::vector<double> A0(std::size_t(m * n)); for(auto& e : A0) e = double(g.below(9)) - 4 + 0.25 * double(g.below(4));
		Buf Rb; auto&& A = mkm(Rb, kind, m, n); for(L i = 0; i < m; ++i) for(L j = 0; j < n; ++j) A[i][j] = A0[std::size_t(i * n + j)];
		L const kk = std::min(m, n); multi::array<double, 1> tau(multi::extensions_t<1>{kk}, 0.0);
		std::string const K = std::string("C14:geqrf:") + MK[kind] + ":"; describe(std::string("geqrf ") + MK[kind] + " m,n=" + std::to_string(m) + "," + std::to_string(n)); sig_mix(K.c_str()); sig_mix(std::uint64_t(std::min<L>(m, 3) * 4 + std::min<L>(n, 3))); nontrivial(m >= 2 && n >= 2);
		op((std::string("geqrf:") + MK[kind]).c_str());
		try { ml::geqrf(A, tau);
			// LAPACK reads the row-major view as the column-major matrix B = A^T (p x q, p = n, q = m): B(i,j) = A[j][i]; B = Q R
			L const p = n, q = m; auto Bf = [&](L i, L j) { return double(A[j][i]); };
			std::vector<double> Rm(std::size_t(p * q), 0.0); for(L i = 0; i < p; ++i) for(L j = 0; j < q; ++j) if(i <= j) Rm[std::size_t(i * q + j)] = Bf(i, j);
			for(L k2 = kk - 1; k2 >= 0; --k2) { std::vector<double> v(std::size_t(p), 0.0); v[std::size_t(k2)] = 1; for(L i = k2 + 1; i < p; ++i) v[std::size_t(i)] = Bf(i, k2);  // Rm := H_k Rm
				for(L j = 0; j < q; ++j) { double d = 0; for(L i = 0; i < p; ++i) d += v[std::size_t(i)] * Rm[std::size_t(i * q + j)]; for(L i = 0; i < p; ++i) Rm[std::size_t(i * q + j)] -= tau[k2] * v[std::size_t(i)] * d; } }
			double err = 0, scale = 1; for(auto e : A0) scale = std::max(scale, std::abs(e)); for(L i = 0; i < p; ++i) for(L j = 0; j < q; ++j) err = std::max(err, std::abs(Rm[std::size_t(i * q + j)] - A0[std::size_t(j * n + i)]));
			if(err > 100 * double(m + n) * 2.3e-16 * scale) violation(K + "reconstruction", "Q*R differs from the input (read as LAPACK reads it) by " + std::to_string(err));
			for(L i = 0; i < m; ++i) for(L j = 0; j < n; ++j) A[i][j] = FILL; if(Rb.stray()) violation(K + "outside-view-written", "elements outside the operated view were overwritten"); count("computed"); count(std::string("acc:geqrf:") + MK[kind] + ":computed");
		} catch(assertion_failure const&) { count("rejected:assertion"); count(std::string("acc:geqrf:") + MK[kind] + ":rejected"); if(kind < 2) violation(K + "rejected-row-major-input", "geqrf rejected (assertion) a row-major view, which the adaptor accepts for every size"); } catch(std::exception const& e) { count("rejected:exception"); count(std::string("acc:geqrf:") + MK[kind] + ":rejected"); info("C14:geqrf:exception-text", e.what()); if(kind < 2) violation(K + "rejected-row-major-input", std::string("geqrf rejected a row-major view, which the adaptor accepts for every size: ") + e.what()); }
#else
		L const m = g.in(1, MAXN), n = g.in(1, MAXN); int const kind = int(g.below(4)), ku = int(g.below(2)), kv = int(g.below(2));
		std::vector<double> A0(std::size_t(m * n)); for(L i = 0; i < m; ++i) for(L j = 0; j < n; ++j) A0[std::size_t(i * n + j)] = double(g.below(7)) - 3 + (i == j ? 5.0 : 0.0);
		Buf Rb, Ru, Rv; auto&& A = mkm(Rb, kind, m, n); for(L i = 0; i < m; ++i) for(L j = 0; j < n; ++j) A[i][j] = A0[std::size_t(i * n + j)];
		auto&& U = mkm(Ru, ku, m, m); auto&& VT = mkm(Rv, kv, n, n); L const kk = std::min(m, n); multi::array<double, 1> s(multi::extensions_t<1>{kk}, 0.0);
		std::string const K = std::string("C14:gesvd:") + MK[kind] + ":"; describe(std::string("gesvd ") + MK[kind] + " U=" + MK[ku] + " VT=" + MK[kv] + " m,n=" + std::to_string(m) + "," + std::to_string(n)); sig_mix(K.c_str()); sig_mix(std::uint64_t(ku * 2 + kv)); sig_mix(std::uint64_t(std::min<L>(m, 3) * 4 + std::min<L>(n, 3))); nontrivial(m >= 2 && n >= 2);
		if(c.k % 3 == 2) {  // the value-returning form for a read-only owning array: auto [U, s, VT] = gesvd(A)
			op("gesvd(const array)->tuple"); std::string const K2 = "C14:gesvd:tuple-form:"; multi::array<double, 2> AO0(multi::extensions_t<2>{m, n}); for(L i = 0; i < m; ++i) for(L j = 0; j < n; ++j) AO0[i][j] = A0[std::size_t(i * n + j)]; multi::array<double, 2> const AO = AO0;
			bool const mutable_lvalue = c.rng.chance(1, 2); multi::array<double, 2> AM = AO0; if(mutable_lvalue) count("tuple-form(non-const lvalue input)");  // the value-returning form works on a copy whatever the constness / value category of a named input
			try { auto ret = mutable_lvalue ? ml::gesvd(AM) : ml::gesvd(AO); auto const& UU = std::get<0>(ret); auto const& ss = std::get<1>(ret); auto const& VV = std::get<2>(ret); count("tuple-form");
				if(UU.size() != m || UU.rotated().size() != m || ss.size() != kk || VV.size() != n || VV.rotated().size() != n) violation(K2 + "shapes", "gesvd(A) of a " + std::to_string(m) + "x" + std::to_string(n) + " matrix returns U " + std::to_string(UU.size()) + "x" + std::to_string(UU.rotated().size()) + ", " + std::to_string(ss.size()) + " values, VT " + std::to_string(VV.size()) + "x" + std::to_string(VV.rotated().size()));
				else { double err = 0, scale = 1; for(auto e : A0) scale = std::max(scale, std::abs(e)); for(L i = 0; i < m; ++i) for(L j = 0; j < n; ++j) { double x = 0; for(L k2 = 0; k2 < kk; ++k2) x += UU[i][k2] * ss[k2] * VV[k2][j]; err = std::max(err, std::abs(x - A0[std::size_t(i * n + j)])); }
					if(err > 200 * double(m + n) * 2.3e-16 * scale) violation(K2 + "reconstruction", "U*diag(s)*VT of the returned tuple differs from the input by " + std::to_string(err));
					for(L k2 = 0; k2 < kk; ++k2) if(ss[k2] < 0 || (k2 + 1 < kk && ss[k2] < ss[k2 + 1])) violation(K2 + "singular-values-order", "singular values are not non-negative and descending"); }
				if(!(AO == AO0)) violation(K2 + "input-modified", "the read-only input was modified"); if(!(AM == AO0)) violation(K2 + "input-modified(non-const lvalue)", "gesvd(A) returned its factors by value and overwrote the named matrix it was given");
			} catch(assertion_failure const& e) { violation(K2 + "rejected", "gesvd(A) rejected (assertion) an owning row-major array"); } catch(std::exception const& e) { violation(K2 + "rejected", std::string("gesvd(A) rejected an owning row-major array: ") + e.what()); } }
		op((std::string("gesvd:") + MK[kind]).c_str());
		try { ml::gesvd(A, U, s, VT);
			double err = 0, scale = 1; for(auto e : A0) scale = std::max(scale, std::abs(e)); for(L i = 0; i < m; ++i) for(L j = 0; j < n; ++j) { double x = 0; for(L k2 = 0; k2 < kk; ++k2) x += U[i][k2] * s[k2] * VT[k2][j]; err = std::max(err, std::abs(x - A0[std::size_t(i * n + j)])); }
			if(err > 200 * double(m + n) * 2.3e-16 * scale) violation(K + "reconstruction", "U*diag(s)*VT differs from the input by " + std::to_string(err));
			for(L k2 = 0; k2 < kk; ++k2) if(s[k2] < 0 || (k2 + 1 < kk && s[k2] < s[k2 + 1])) violation(K + "singular-values-order", "singular values are not non-negative and descending");
			for(L i = 0; i < m; ++i) for(L j = 0; j < n; ++j) A[i][j] = FILL; for(L i = 0; i < m; ++i) for(L j = 0; j < m; ++j) U[i][j] = FILL; for(L i = 0; i < n; ++i) for(L j = 0; j < n; ++j) VT[i][j] = FILL;
			if(Rb.stray() || Ru.stray() || Rv.stray()) violation(K + "outside-view-written", "elements outside the documented outputs were overwritten"); count("computed"); count(std::string("acc:gesvd:") + MK[kind] + "," + MK[ku] + "," + MK[kv] + ":computed");
		} catch(assertion_failure const&) { count("rejected:assertion"); count(std::string("acc:gesvd:") + MK[kind] + "," + MK[ku] + "," + MK[kv] + ":rejected"); if(kind < 2) violation(K + "rejected-row-major-input", "gesvd rejected (assertion) row-major operands, which the adaptor accepts for every size"); } catch(std::exception const& e) { count("rejected:exception"); count(std::string("acc:gesvd:") + MK[kind] + "," + MK[ku] + "," + MK[kv] + ":rejected"); info("C14:gesvd:exception-text", e.what()); if(kind < 2) violation(K + "rejected-row-major-input", std::string("gesvd rejected row-major operands, which the adaptor accepts for every size: ") + e.what()); }
#endif
		st().assert_throws = false;
	});
}
