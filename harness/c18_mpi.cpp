// C18 — MPI messages built from elements() of a view denote exactly its elements in canonical order; PMPI ledger of datatype lifecycles.
//   -DC18_T: 0 int, 1 double, 2 float
#define VK_MAIN
#define OMPI_SKIP_MPICXX 1
#include <mpi.h>
#include "../kit/operands.hpp"
#include <boost/multi/adaptors/mpi.hpp>
#include <set>
#include <optional>
#include <sys/mman.h>
using namespace vk;

#ifndef C18_T
#define C18_T 0
#endif
#if C18_T == 0
using T = int;
#elif C18_T == 1
using T = double;
#else
using T = float;
#endif

// ---- PMPI interposition: ledger of derived datatypes
struct TypeLedger { std::set<MPI_Datatype> created, committed; long n_created = 0, n_freed = 0, n_commit = 0, n_pack = 0; std::vector<std::string> problems; };
static TypeLedger& tl() { static TypeLedger t; return t; }
static bool predefined(MPI_Datatype d) { return d == MPI_INT || d == MPI_DOUBLE || d == MPI_FLOAT || d == MPI_CHAR || d == MPI_BYTE || d == MPI_LONG || d == MPI_PACKED; }
static void created(MPI_Datatype* d) { if(d && *d != MPI_DATATYPE_NULL) { if(!tl().created.insert(*d).second) tl().problems.push_back("datatype handle created twice without free"); ++tl().n_created; } }
static void used(MPI_Datatype d, char const* where) { if(predefined(d)) return; if(!tl().created.count(d)) tl().problems.push_back(std::string(where) + " uses a datatype that is not alive (freed or never created)"); else if(!tl().committed.count(d)) tl().problems.push_back(std::string(where) + " uses an uncommitted datatype"); }
extern "C" {
int MPI_Type_create_hvector(int count, int blocklength, MPI_Aint stride, MPI_Datatype oldtype, MPI_Datatype* newtype) { if(!predefined(oldtype) && !tl().created.count(oldtype)) tl().problems.push_back("hvector built from a datatype that is not alive"); int r = PMPI_Type_create_hvector(count, blocklength, stride, oldtype, newtype); created(newtype); return r; }
int MPI_Type_create_resized(MPI_Datatype oldtype, MPI_Aint lb, MPI_Aint extent, MPI_Datatype* newtype) { if(!predefined(oldtype) && !tl().created.count(oldtype)) tl().problems.push_back("resized built from a datatype that is not alive"); int r = PMPI_Type_create_resized(oldtype, lb, extent, newtype); created(newtype); return r; }
int MPI_Type_vector(int count, int blocklength, int stride, MPI_Datatype oldtype, MPI_Datatype* newtype) { int r = PMPI_Type_vector(count, blocklength, stride, oldtype, newtype); created(newtype); return r; }
int MPI_Type_dup(MPI_Datatype oldtype, MPI_Datatype* newtype) { int r = PMPI_Type_dup(oldtype, newtype); created(newtype); if(newtype && tl().committed.count(oldtype)) tl().committed.insert(*newtype); return r; }
int MPI_Type_contiguous(int count, MPI_Datatype oldtype, MPI_Datatype* newtype) { int r = PMPI_Type_contiguous(count, oldtype, newtype); created(newtype); return r; }
int MPI_Type_commit(MPI_Datatype* d) { if(d && !tl().created.count(*d) && !predefined(*d)) tl().problems.push_back("commit of a datatype that is not alive"); int r = PMPI_Type_commit(d); if(d) tl().committed.insert(*d); ++tl().n_commit; return r; }
int MPI_Type_free(MPI_Datatype* d) { if(d) { if(!tl().created.erase(*d)) tl().problems.push_back(predefined(*d) ? "free of a predefined datatype" : "free of a datatype that is not alive (double free)"); tl().committed.erase(*d); ++tl().n_freed; } return PMPI_Type_free(d); }
int MPI_Pack(void const* inbuf, int incount, MPI_Datatype datatype, void* outbuf, int outsize, int* position, MPI_Comm comm) { used(datatype, "MPI_Pack"); ++tl().n_pack; return PMPI_Pack(inbuf, incount, datatype, outbuf, outsize, position, comm); }
int MPI_Unpack(void const* inbuf, int insize, int* position, void* outbuf, int outcount, MPI_Datatype datatype, MPI_Comm comm) { used(datatype, "MPI_Unpack"); return PMPI_Unpack(inbuf, insize, position, outbuf, outcount, datatype, comm); }
int MPI_Sendrecv(void const* sendbuf, int sendcount, MPI_Datatype sendtype, int dest, int sendtag, void* recvbuf, int recvcount, MPI_Datatype recvtype, int source, int recvtag, MPI_Comm comm, MPI_Status* status) { used(sendtype, "MPI_Sendrecv(send)"); used(recvtype, "MPI_Sendrecv(recv)"); return PMPI_Sendrecv(sendbuf, sendcount, sendtype, dest, sendtag, recvbuf, recvcount, recvtype, source, recvtag, comm, status); }
}

static GenCfg cfg;
namespace mpi = multi::mpi;

struct MpiVis {
	T const* base; L rootn; Rng* g;
	template<class V> void at(V const&, MV const&, char const*) {}
	template<class V> void final(V&& v, MV const& m) {
		constexpr int D = rank_of<V>; if(m.has_zero()) return; L const N = m.n(); if(N > 4000) return;
		std::string const K = "C18:"; std::size_t const live0 = tl().created.size();
		bool const rb = g->chance(1, 4); L const rb0 = g->in(-3, 4); L rb1 = g->in(-3, 3); if(rb1 == 0) rb1 = 2; if(rb) { count("re-based-source-views"); describe(" (source re-based)"); sig_mix("rb"); }
		auto body = [&](auto&& v) {  // v: the view itself, or (one time in four) its twin with other first indices: the message denotes the same elements
			// the four documented ways to build the same message (the skeleton forms move the committed datatype handle)
			// (mpi::data(iterator) is not in this list: MPI_Type_vector(1, 1, stride) has the extent of ONE element, so `count` of them are contiguous elements whatever the stride;
			//  the repository's own mpi.cpp expects exactly that ({1,2,3} from AA.strided(2) of {1..6}), and C18 speaks about messages built from elements(): observation in DESIGN.md, no verdict)
			int const form = int(g->below(6)); static char const* FN[] = {"message(elements)", "message(buf,skeleton&&)", "message(buf,move(named skeleton))", "message(buf,layout,datatype)", "skeleton<T>(layout)+base", "create_subarray(layout)+base"};
			std::optional<mpi::skeleton<T, int>> sko; MPI_Datatype rawt = MPI_DATATYPE_NULL; void* mb = nullptr; int mc = 0; MPI_Datatype md = MPI_DATATYPE_NULL;
			void* const vb = const_cast<void*>(static_cast<void const*>(v.base()));
			op(FN[form]); count(std::string("form:") + FN[form]); sig_mix(std::uint64_t(form)); std::optional<mpi::message<>> msgo; void* const bp = const_cast<void*>(static_cast<void const*>(v.elements().base()));
			switch(form) { case 0: msgo.emplace(v.elements()); break; case 1: msgo.emplace(bp, mpi::skeleton<void, int>(v.elements().layout(), mpi::datatype<T>)); break;
				case 2: { mpi::skeleton<void, int> sk(v.elements().layout(), mpi::datatype<T>); msgo.emplace(bp, std::move(sk)); break; } case 3: msgo.emplace(bp, v.elements().layout(), mpi::datatype<T>); break;
				case 4: sko.emplace(v.layout()); mb = vb; mc = sko->count(); md = sko->datatype(); break;  // the older interface: (base(), count, datatype) from the view's own layout
				default: mpi::create_subarray(v.layout(), mpi::datatype<T>, &rawt); MPI_Type_commit(&rawt); mb = vb; mc = 1; md = rawt; break; }
			if(msgo) { mb = msgo->buffer(); mc = msgo->count(); md = msgo->datatype(); }
			struct { void* b; int c; MPI_Datatype d; void* buffer() const { return b; } int count() const { return c; } MPI_Datatype datatype() const { return d; } } const msg{mb, mc, md};
			// (1) MPI_Pack of the message == the canonical element sequence
			std::vector<char> pk(std::size_t(N) * sizeof(T) + 64, char(0x5A)); int pos = 0; op("MPI_Pack");
			MPI_Pack(msg.buffer(), msg.count(), msg.datatype(), pk.data(), int(pk.size()), &pos, MPI_COMM_SELF);
			if(pos != int(std::size_t(N) * sizeof(T))) violation(K + "pack:size", "packing the message yields " + std::to_string(pos) + " bytes, the view has " + std::to_string(N) + " elements of " + std::to_string(sizeof(T)) + " bytes");
			else { for(L k = 0; k < N; ++k) { T x; std::memcpy(&x, pk.data() + std::size_t(k) * sizeof(T), sizeof(T)); if(!(x == base[m.off[std::size_t(k)]])) violation(K + "pack:order", "packed element " + std::to_string(k) + " is not the k-th element in canonical order"); } }
			// (2) unpack / self-sendrecv into a view of another layout with the same number of elements
			int const sk = int(g->below(NSRC)); bool const sendrecv = g->chance(1, 2);
			with_source<D, T>(sk, m.size, 3, [&](auto& dst, MV const& dm, T* dbase, L dn) {
				std::vector<T> dsnap(dbase, dbase + dn); describe(std::string(" -> ") + (sendrecv ? "sendrecv" : "unpack") + " into " + src_name(sk)); sig_mix(std::uint64_t(sk * 2 + sendrecv));
				op("message(destination)"); mpi::message<> dmsg(dst.elements());
				if(sendrecv) { op("MPI_Sendrecv(self)"); MPI_Status stt; MPI_Sendrecv(msg.buffer(), msg.count(), msg.datatype(), 0, 7, dmsg.buffer(), dmsg.count(), dmsg.datatype(), 0, 7, MPI_COMM_SELF, &stt); }
				else { op("MPI_Unpack"); int p2 = 0; MPI_Unpack(pk.data(), pos, &p2, dmsg.buffer(), dmsg.count(), dmsg.datatype(), MPI_COMM_SELF); }
				std::vector<char> in(std::size_t(dn), 0);
				for(L k = 0; k < N; ++k) { L o = dm.off[std::size_t(k)]; in[std::size_t(o)] = 1; if(!(dbase[o] == base[m.off[std::size_t(k)]])) violation(K + (sendrecv ? "sendrecv" : "unpack") + ":k-th-to-k-th", "element " + std::to_string(k) + " of the source view did not arrive at element " + std::to_string(k) + " of the destination view"); }
				for(L o = 0; o < dn; ++o) if(!in[std::size_t(o)] && !(dbase[o] == dsnap[std::size_t(o)])) violation(K + (sendrecv ? "sendrecv" : "unpack") + ":outside-destination-view", "an element outside the destination view was overwritten");
			});
			if(rawt != MPI_DATATYPE_NULL) MPI_Type_free(&rawt);
			count("messages", 2); count("elements_compared", N);
		};
		if(rb) { if constexpr(D >= 2) { body(v.reindexed(rb0, rb1)); } else { body(v.reindexed(rb0 == 0 ? L(-2) : rb0)); } } else { body(v); }
		// (3) datatype lifecycle: everything created for the messages has been freed exactly once, committed before use
		op("datatype-ledger");
		for(auto const& p : tl().problems) violation(K + "datatype:" + (p.find("uncommitted") != std::string::npos ? "used-uncommitted" : p.find("double free") != std::string::npos ? "double-free" : "lifecycle"), p, false);
		tl().problems.clear();
		if(tl().created.size() != live0) violation(K + "datatype:leaked", std::to_string(tl().created.size() - live0) + " derived datatype(s) created for a message were never freed");
		if(st().case_viol) throw stop_case{};
		nontrivial(N >= 2);
	}
};

template<int D> void one(Case& c, Prog const& p) {
	auto exts = make_extensions<D>(p.root); MV m = MV::root(p.root); describe("D=" + std::to_string(D) + " root=" + m.shape() + ":"); sig_mix(std::uint64_t(D));
	multi::array<T, D> A(exts); { L q = 0; for(auto& e : A.elements()) e = T(q++); }
	MpiVis vis{A.data_elements(), m.n(), &c.rng}; Interp<MpiVis> I{vis, p}; I.run(A(), m, 0, "root");
}

// Strides of 2 GiB and more (in bytes): the datatype carries them as MPI_Aint. The block is a lazily committed anonymous mapping of which only a few pages are touched.
static void huge_stride_probe(Case& c) {
	Rng& g = c.rng; int const w = int(g.below(3)); std::size_t const stride_bytes = (w == 0 ? (std::size_t(1) << 31) : (w == 1 ? (std::size_t(1) << 31) + 4 * sizeof(T) : (std::size_t(1) << 32) + 2 * sizeof(T)));
	L const rows = 2 + L(g.below(2)), cols = L(stride_bytes / sizeof(T)), W = 4; std::size_t const total = std::size_t(rows) * stride_bytes;
	describe("huge-stride probe: " + std::to_string(rows) + " rows " + std::to_string(stride_bytes) + " bytes apart"); sig_mix("huge-stride"); sig_mix(std::uint64_t(w)); op("huge-stride:mmap");
	void* mp = mmap(nullptr, total, PROT_READ | PROT_WRITE, MAP_PRIVATE | MAP_ANONYMOUS | MAP_NORESERVE, -1, 0);
	if(mp == MAP_FAILED) { count("huge-stride-probe:mapping-refused(skipped)"); return; }
	{ T* const p = static_cast<T*>(mp); multi::array_ref<T, 2> R({rows, cols}, p); auto val = [](L i, L j) { return T(100 * (i + 1) + j); };
		auto reset = [&] { for(L i = 0; i < rows; ++i) for(L j = 0; j < W + 2; ++j) p[i * cols + j] = val(i, j); }; std::size_t const live0 = tl().created.size();
		int const kind = int(g.below(3)); static char const* KN[] = {"sub-block", "column", "transposed-sub-block"}; std::string const K = std::string("C18:huge-stride:") + KN[kind] + ":"; sig_mix(std::uint64_t(kind)); count(std::string("huge-stride-probe:") + KN[kind]);
		std::vector<std::pair<L, L>> want;  // (i, j) of the k-th element in canonical order
		auto run = [&](auto&& v) { reset(); L const N = L(want.size()); op("huge-stride:message(elements)"); mpi::message<> msg(v.elements());
			std::vector<char> pk(std::size_t(N) * sizeof(T) + 64, char(0x5A)); int pos = 0; op("huge-stride:MPI_Pack"); MPI_Pack(msg.buffer(), msg.count(), msg.datatype(), pk.data(), int(pk.size()), &pos, MPI_COMM_SELF);
			if(pos != int(std::size_t(N) * sizeof(T))) violation(K + "pack:size", "packing the message yields " + std::to_string(pos) + " bytes for " + std::to_string(N) + " elements");
			else for(L k = 0; k < N; ++k) { T x; std::memcpy(&x, pk.data() + std::size_t(k) * sizeof(T), sizeof(T)); if(!(x == val(want[std::size_t(k)].first, want[std::size_t(k)].second))) { violation(K + "pack:order", "packed element " + std::to_string(k) + " is not the k-th element of the view (rows " + std::to_string(stride_bytes) + " bytes apart)"); break; } }
			for(L k = 0; k < N; ++k) { T x = T(5000 + k); std::memcpy(pk.data() + std::size_t(k) * sizeof(T), &x, sizeof(T)); } int p2 = 0; op("huge-stride:MPI_Unpack"); MPI_Unpack(pk.data(), int(std::size_t(N) * sizeof(T)), &p2, msg.buffer(), msg.count(), msg.datatype(), MPI_COMM_SELF);
			std::set<std::pair<L, L>> in(want.begin(), want.end());
			for(L k = 0; k < N; ++k) if(!(p[want[std::size_t(k)].first * cols + want[std::size_t(k)].second] == T(5000 + k))) { violation(K + "unpack:k-th-to-k-th", "unpacked element " + std::to_string(k) + " did not arrive at the k-th element of the view"); break; }
			for(L i = 0; i < rows; ++i) for(L j = 0; j < W + 2; ++j) if(!in.count({i, j}) && !(p[i * cols + j] == val(i, j))) { violation(K + "unpack:outside-view", "an element outside the view was overwritten"); i = rows; break; }
			count("messages", 1); count("elements_compared", 2 * N); };
		switch(kind) {
		case 0: for(L i = 0; i < rows; ++i) for(L j = 1; j <= W; ++j) want.push_back({i, j}); run(R({0, rows}, {1, 1 + W})); break;
		case 1: for(L i = 0; i < rows; ++i) want.push_back({i, 2}); run(R.rotated()[2]); break;
		default: for(L j = 1; j <= W; ++j) for(L i = 0; i < rows; ++i) want.push_back({i, j}); run(R.transposed()({1, 1 + W}, {0, rows})); break;
		}
		for(auto const& pr : tl().problems) violation(K + "datatype:lifecycle", pr, false); tl().problems.clear();
		if(tl().created.size() != live0) violation(K + "datatype:leaked", "derived datatype(s) created for a message were never freed");
		nontrivial(true); }
	munmap(mp, total);
}

// Empty messages: an empty view's message is (buffer, count, datatype) with nothing to transfer, but it is still handed to MPI (a rank that owns no rows takes part in the
// exchange all the same), so its datatype must be alive and committed, every call must succeed, pack 0 bytes and unpack / receive nothing.
static void empty_message_probe(Case& c) {
	Rng& g = c.rng; int const kind = int(g.below(4)); static char const* KN[] = {"1-D-empty-slice", "0xN-row-selection", "1-D-empty-slice-of-strided", "0xN-of-transposed"}; std::string const K = std::string("C18:empty:") + KN[kind] + ":";
	L const r = g.in(2, 5), q = g.in(2, 5), k = g.below(r); describe(std::string("empty-message probe: ") + KN[kind] + " of " + std::to_string(r) + "x" + std::to_string(q) + " at " + std::to_string(k)); sig_mix("empty-message"); sig_mix(std::uint64_t(kind)); count(std::string("empty-message-probe:") + KN[kind]);
	multi::array<T, 2> A({r, q}); { L z = 0; for(auto& e : A.elements()) e = T(z++); } std::vector<T> const snap(A.data_elements(), A.data_elements() + r * q); std::size_t const live0 = tl().created.size();
	MPI_Comm_set_errhandler(MPI_COMM_SELF, MPI_ERRORS_RETURN);
	auto run = [&](auto&& v) {
		if(v.num_elements() != 0) { count("empty-message-probe:not-empty(skipped)"); return; }
		op("empty:message(elements)"); mpi::message<> msg(v.elements());
		std::vector<char> pk(64, char(0x5A)); int pos = 0; op("empty:MPI_Pack"); int rc = MPI_Pack(msg.buffer(), msg.count(), msg.datatype(), pk.data(), int(pk.size()), &pos, MPI_COMM_SELF);
		if(rc != MPI_SUCCESS) violation(K + "pack:rejected", "MPI_Pack refuses the message of an empty view (error class " + std::to_string(rc) + ")");
		if(pos != 0) violation(K + "pack:size", "packing the message of an empty view yields " + std::to_string(pos) + " bytes");
		for(char ch : pk) if(ch != char(0x5A)) { violation(K + "pack:wrote", "packing the message of an empty view wrote into the pack buffer"); break; }
		int p2 = 0; op("empty:MPI_Unpack"); rc = MPI_Unpack(pk.data(), 0, &p2, msg.buffer(), msg.count(), msg.datatype(), MPI_COMM_SELF);
		if(rc != MPI_SUCCESS) violation(K + "unpack:rejected", "MPI_Unpack refuses the message of an empty view (error class " + std::to_string(rc) + ")");
		op("empty:MPI_Sendrecv(self)"); mpi::message<> dmsg(v.elements()); MPI_Status stt;
		rc = MPI_Sendrecv(msg.buffer(), msg.count(), msg.datatype(), 0, 9, dmsg.buffer(), dmsg.count(), dmsg.datatype(), 0, 9, MPI_COMM_SELF, &stt);
		if(rc != MPI_SUCCESS) violation(K + "sendrecv:rejected", "MPI_Sendrecv refuses the message of an empty view (error class " + std::to_string(rc) + ")");
		else { int got = -1; MPI_Get_count(&stt, mpi::datatype<T>, &got); if(got != 0) violation(K + "sendrecv:count", "a self send/receive of an empty view's message transferred " + std::to_string(got) + " elements"); }
		for(L i = 0; i < r * q; ++i) if(!(A.data_elements()[i] == snap[std::size_t(i)])) { violation(K + "modified-elements", "unpacking / receiving an empty message modified element " + std::to_string(i) + " of the array the empty view belongs to"); break; }
		count("messages", 2); count("empty_messages_exchanged");
	};
	switch(kind) {
	case 0: run(A[k].sliced(k % q, k % q)); break;
	case 1: run(A({k, k}, {0, q})); break;
	case 2: run(A.transposed()[k % q].sliced(k, k)); break;
	default: run(A.transposed()({k % q, k % q}, {0, r})); break;
	}
	MPI_Comm_set_errhandler(MPI_COMM_SELF, MPI_ERRORS_ARE_FATAL);
	for(auto const& pr : tl().problems) violation(K + "datatype:" + (pr.find("uncommitted") != std::string::npos ? "used-uncommitted" : "lifecycle"), pr, false); tl().problems.clear();
	if(tl().created.size() != live0) violation(K + "datatype:leaked", "derived datatype(s) created for an empty message were never freed");
	nontrivial(true);
}

int main(int argc, char** argv) {
	MPI_Init(&argc, &argv);
	int rc = main_loop(argc, argv, [&](Case& c) {
		static bool init = false; if(!init) { init = true; auto& a = st().args; for(std::size_t i = 0; i + 1 < a.size(); ++i) { if(a[i] == "--maxext") cfg.max_ext = std::atoi(a[i + 1].c_str()); if(a[i] == "--maxops") cfg.max_ops = std::atoi(a[i + 1].c_str()); } }
		if(c.k % 50 == 7) { huge_stride_probe(c); return; }
		if(c.k % 20 == 13) { empty_message_probe(c); return; }
		Prog p = gen_prog(c.rng, cfg);
		switch(p.root.size()) { case 1: one<1>(c, p); break; case 2: one<2>(c, p); break; case 3: one<3>(c, p); break; default: one<4>(c, p); break; }
	});
	count("types_created_total", tl().n_created);
	MPI_Finalize(); return rc;
}
