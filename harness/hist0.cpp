// E-HIST for 0-dimensional arrays (reduced interface: no swap/reextent/clear/views): value semantics (C04) and element lifetime /
// storage ledger (C08) over histories of construct / copy / move / assign / element-assign / destroy.
#define VK_MAIN
#include "../kit/viewprog.hpp"
#include "../kit/tracked.hpp"
#include <optional>
using namespace vk;

using Elem = tracked<int>; using Alloc = ledger_alloc<Elem, 0>; using Arr = multi::array<Elem, 0, Alloc>;
struct Slot { std::optional<Arr> a; long id = 0; bool unspec = false; };
static std::string PROP = "C04"; static std::string cur;
static void V(std::string const& key, std::string const& detail) { if(key.compare(0, 3, PROP) == 0) violation(key, detail); else count("otherprop:" + key); }

int main(int argc, char** argv) {
	return main_loop(argc, argv, [&](Case& c) {
		static bool init = false; if(!init) { init = true; auto& a = st().args; for(std::size_t i = 0; i + 1 < a.size(); ++i) if(a[i] == "--prop") PROP = a[i + 1];
			softcfg().sink = [](std::string const& prop, std::string const& key, std::string const& detail) { if(prop != PROP) { count("otherprop:" + key); return; } if(st().case_viol == 0) violation(key, detail, false); }; }
		Rng& g = c.rng; registry().reset(); ledger().reset(); faults().disarm(); long next = 1; int done = 0; bool assigned = false;
		{
			std::vector<Slot> pool(3); int const steps = int(g.in(3, 12)); describe("0-D:");
			for(int s = 0; s < steps; ++s) {
				std::size_t a = std::size_t(g.below(3)), b = std::size_t(g.below(3)); int o = int(g.below(9)); if(!pool[a].a && g.chance(3, 4)) o = 0; Slot& A = pool[a]; Slot& B = pool[b]; std::string opk;
				switch(o) {
				case 0: { opk = "ctor(value)"; long id = next++; A.a.reset(); if(g.chance(1, 2)) A.a.emplace(Elem(int(id))); else A.a.emplace(Elem(int(id)), Alloc(0)); A.id = id; A.unspec = false; break; }
				case 1: if(B.a && a != b) { opk = "copy-ctor"; A.a.reset(); A.a.emplace(*B.a); A.id = B.id; A.unspec = B.unspec; } break;
				case 2: if(B.a && a != b) { opk = "move-ctor"; A.a.reset(); A.a.emplace(std::move(*B.a)); A.id = B.id; A.unspec = B.unspec; B.unspec = true; } break;  // 0-D: the source keeps one (valid, unspecified) element
				case 3: if(A.a && B.a) { opk = a == b ? "self-copy-assign" : "copy-assign"; Arr const& src = *B.a; *A.a = src; A.id = B.id; A.unspec = B.unspec; assigned = true; } break;
				case 4: if(A.a && B.a && a != b) { opk = "move-assign"; *A.a = std::move(*B.a); A.id = B.id; A.unspec = B.unspec; B.unspec = true; assigned = true; } break;
				case 5: if(A.a) { opk = "assign-element"; long id = next++; *A.a = Elem(int(id)); A.id = id; A.unspec = false; assigned = true; } break;
				case 6: if(A.a) { opk = "write-through-data_elements"; long id = next++; *A.a->data_elements() = Elem(int(id)); A.id = id; A.unspec = false; } break;
				case 7: if(A.a && !A.unspec) { opk = "convert-to-element"; Elem e = static_cast<Elem>(*A.a); if(e.get() != int(A.id)) V("C04:0-D:conversion-to-element", "conversion of a 0-D array to its element gives another value"); } break;
				default: { opk = "destroy"; A.a.reset(); break; }
				}
				if(opk.empty()) continue; cur = opk; op(opk); softcfg().opk = opk; describe(" " + opk + "(" + std::to_string(a) + "," + std::to_string(b) + ")"); sig_mix(opk.c_str()); count("op:" + opk); ++done;
				if(st().case_viol) throw stop_case{};
				L live = 0; for(auto& sl : pool) if(sl.a) { ++live; if(sl.a->is_empty() || sl.a->layout().is_empty() || sl.a->layout().empty()) V("C04:0-D:" + opk + ":is_empty", "a 0-D array (exactly one element) reports itself empty"); else if(sl.a->num_elements() != 1) V("C04:0-D:" + opk + ":num_elements", "a 0-D array reports " + std::to_string(sl.a->num_elements()) + " elements"); else if(!sl.unspec && sl.a->data_elements()->get() != int(sl.id)) V("C04:0-D:" + opk + ":array-differs-from-model", "0-D array holds " + std::to_string(sl.a->data_elements()->get()) + ", model " + std::to_string(sl.id)); }
				for(std::size_t i = 0; i < 3; ++i) for(std::size_t j = i + 1; j < 3; ++j) if(pool[i].a && pool[j].a && pool[i].a->data_elements() == pool[j].a->data_elements()) V("C04:0-D:" + opk + ":storage-shared", "two 0-D arrays share storage");
				if(L(registry().live.size()) != live) V("C08:0-D:" + opk + ":live-elements-vs-arrays", std::to_string(registry().live.size()) + " live elements for " + std::to_string(live) + " live 0-D arrays");
				if(L(ledger().blocks.size()) != live) V("C08:0-D:" + opk + ":outstanding-blocks", std::to_string(ledger().blocks.size()) + " blocks for " + std::to_string(live) + " live 0-D arrays");
				if(st().case_viol) throw stop_case{};
			}
			softcfg().opk = "destroy-all"; op("destroy-all");
		}
		if(st().case_viol) throw stop_case{};
		if(!registry().live.empty()) V("C08:0-D:end:leaked-elements", "elements leaked"); if(!ledger().blocks.empty()) V("C08:0-D:end:leaked-blocks", "blocks leaked");
		nontrivial(done >= 3 && assigned);
	});
}
