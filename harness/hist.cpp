// E-HIST — histories of operations over a pool of owning arrays, monitored against a value model (C04, C06),
// a live-object registry + allocation ledger (C08) and an expected-allocator model (C10).
//   -DH_T=0 int | 1 tracked<int> | 2 std::string      -DH_D=<rank 1..4> (0-D arrays have a much smaller interface: see hist0.cpp)      -DH_TR=<allocator trait bits: 1 POCCA 2 POCMA 4 POCS 8 always_equal>
#define VK_MAIN
#include "../kit/viewprog.hpp"
#include "../kit/tracked.hpp"
#include <optional>
using namespace vk;

#ifndef H_T
#define H_T 1
#endif
#ifndef H_D
#define H_D 2
#endif
#ifndef H_TR
#define H_TR 0
#endif
constexpr int D = H_D;

#if H_T == 0
using Elem = int; static Elem mk(long id) { return int(id); } static long id_of(Elem const& e) { return e; }
using Other = short; static Other mko(long id) { return short(id); }
constexpr bool TRIVIAL = true;
#elif H_T == 1
using Elem = tracked<int>; static Elem mk(long id) { return Elem(int(id)); } static long id_of(Elem const& e) { return e.get(); }
using Other = int; static Other mko(long id) { return int(id); }
constexpr bool TRIVIAL = false;
#elif H_T == 4
using Elem = tracked_ta<int>; static Elem mk(long id) { return Elem(int(id)); } static long id_of(Elem const& e) { return e.get(); }
using Other = int; static Other mko(long id) { return int(id); }
constexpr bool TRIVIAL = false;
#elif H_T == 3
// trivially destructible and trivially copyable, but NOT trivially default constructible: a value-initialised element has id 0, raw (poisoned) storage does not
struct Cell { int v = 1; int w;  /* no initialiser: 0 after value-initialisation, whatever the (poisoned) storage held after default-initialisation */ Cell() = default; Cell(int x) : v{x}, w{0} {}  /* NOLINT */ friend bool operator==(Cell const& a, Cell const& b) { return a.v == b.v; } friend bool operator!=(Cell const& a, Cell const& b) { return a.v != b.v; } };
using Elem = Cell; static Elem mk(long id) { return Cell(int(id) + 1); } static long id_of(Elem const& e) { return long(e.v) - 1; }
using Other = int; static Other mko(long id) { return int(id) + 1; }
constexpr bool TRIVIAL = false;
static_assert(std::is_trivially_destructible_v<Cell> && !std::is_trivially_default_constructible_v<Cell>);
#define HIST_VALUE_INIT_OBSERVABLE 1
static bool value_initialised(Cell const& c) { return c.v == 1 && c.w == 0; }
#else
using Elem = std::string; static Elem mk(long id) { return std::string(20, 'v') + std::to_string(id); } static long id_of(Elem const& e) { return e.empty() ? 0 : std::atol(e.c_str() + 20); }
using Other = char const*; static std::vector<std::string>& opool() { static std::vector<std::string> p; return p; } static Other mko(long id) { opool().push_back(std::string(20, 'v') + std::to_string(id)); return opool().back().c_str(); }
constexpr bool TRIVIAL = false;
#endif

using Alloc = ledger_alloc<Elem, H_TR>;
using Arr = multi::array<Elem, D, Alloc>;
using OArr = multi::array<Other, D>;
constexpr bool POCCA = (H_TR & 1) != 0, POCMA = (H_TR & 2) != 0, POCS = (H_TR & 4) != 0, AEQ = (H_TR & 8) != 0;

struct Model { std::vector<L> ext; std::vector<long> ids; std::vector<L> base; bool base_known = false; bool unspec = false;  // unspec: contents unspecified (trivial element type, no fill) — refreshed from the array
	L n() const { L r = 1; for(auto e : ext) r *= e; return r; } };
struct Slot { std::optional<Arr> a; Model m; int aid = 0, agen = 0; };

static std::string PROP = "C04"; static int MAXEXT = 3; static int MAXSTEPS = 12; static bool VARY_ALLOC = false;
static long next_id = 1;
static std::string cur_op;

// violations of the selected property stop the case; violations of the other properties served by this engine are only counted
static void V(std::string const& key, std::string const& detail) { if(key.compare(0, 3, PROP) == 0) violation(key, detail); else count("otherprop:" + key); }
static void install_soft_sink() { softcfg().sink = [](std::string const& prop, std::string const& key, std::string const& detail) {
	if(prop != PROP) { count("otherprop:" + key); return; }
	if(st().case_viol > 0) { count("consequent:" + key); return; }  // consequences of the first violation of this case (e.g. during unwinding) are not separate findings
	violation(key, detail, false); }; }
static void poll() {  // soft violations raised inside element/allocator hooks
	if(st().case_viol > 0) throw stop_case{}; }

static std::vector<L> rnd_ext(Rng& g) { std::vector<L> e; for(int d = 0; d < D; ++d) e.push_back(g.in(1, MAXEXT)); if(D > 0 && g.chance(1, 12)) { for(auto& x : e) x = 0; } else if(D > 1 && g.chance(1, 15)) { e[std::size_t(g.below(D))] = 0; } return e; }
static Model fresh(std::vector<L> const& e) { Model m; m.ext = e; for(L k = 0; k < m.n(); ++k) m.ids.push_back(next_id++); return m; }
static Model filled(std::vector<L> const& e, long id) { Model m; m.ext = e; m.ids.assign(std::size_t(m.n()), id); return m; }
static Model empty_model() { Model m; m.ext.assign(std::size_t(D), 0); if(D == 0) m.ids = {0}; return m; }

static void write_ids(Arr& a, Model const& m) { Elem* p = a.data_elements(); for(L k = 0; k < m.n(); ++k) p[k] = mk(m.ids[std::size_t(k)]); }

static bool matches(Arr const& a, Model& m, std::string& why) {
	if(D == 0) { long got = id_of(*a.data_elements()); if(m.unspec) { m.ids = {got}; m.unspec = false; return true; } if(got != m.ids[0]) { why = "0-D element " + std::to_string(got) + " != " + std::to_string(m.ids[0]); return false; } return true; }
	if(m.n() == 0) { if(a.num_elements() != 0 || !a.is_empty()) { why = "array not empty but model is (num_elements=" + std::to_string(a.num_elements()) + ")"; return false; } return true; }
	auto sz = tuple_to_vec(a.sizes()); if(sz != m.ext) { why = "sizes " + join(sz, "x") + " != model " + join(m.ext, "x"); return false; }
	{ std::vector<L> fs; std::apply([&](auto const&... x) { (fs.push_back(L(x.first())), ...); }, a.extensions().base()); if(m.base_known) { if(fs != m.base) { why = "first indices " + join(fs) + " != model " + join(m.base) + " (index bases are part of the extents)"; return false; } } else { m.base = fs; m.base_known = true; } }
	if(a.num_elements() != m.n()) { why = "num_elements"; return false; }
	Elem const* p = a.data_elements();
	if(m.unspec) { m.ids.clear(); for(L k = 0; k < m.n(); ++k) m.ids.push_back(id_of(p[k])); m.unspec = false; return true; }
	for(L k = 0; k < m.n(); ++k) if(id_of(p[k]) != m.ids[std::size_t(k)]) { std::vector<L> ix; MV::root(m.ext).unlin(k, ix); why = "element [" + join(ix) + "] holds " + std::to_string(id_of(p[k])) + ", model " + std::to_string(m.ids[std::size_t(k)]); return false; }
	// index access agrees with the flat image (first / last)
	return true;
}

// apply a model view op (kind) to get the logical contents of a view of b
static bool view_of(int kind, Model const& b, Model& out, MV& mvout) {
	if(b.n() == 0 || D == 0) return false; MV r = MV::root(b.ext); MV v;
	switch(kind % 6) {
	case 5: if(D < 3) return false; v = m_unrotated(m_transposed(m_rotated(r))); break;  // inner dimensions permuted, compact
	case 0: if(D < 2) return false; v = m_transposed(r); break;
	case 1: v = m_rotated(r); break;
	case 2: if(b.ext[0] < 2) return false; v = m_sliced(r, 1, b.ext[0]); break;
	case 3: if(b.ext[0] % 2 != 0 || !b.base_known || b.base[0] != 0) return false; v = m_strided(r, 2); break;  // strided() of a re-based array: C19's domain (recorded finding there)
	default: v = m_unrotated(r); break;
	}
	out.ext = v.size; out.ids.clear(); for(L k = 0; k < v.n(); ++k) out.ids.push_back(b.ids[std::size_t(v.off[std::size_t(k)])]); out.unspec = false; mvout = v; return true;
}
// the same views taken from the array as a const object (read-only view types; strided() const& of a D>1 array does not compile on the pinned tree)
template<class AA, class F, int DD = D> bool with_const_view(int kind, AA const& b, F&& f) {
	if constexpr(DD >= 1) {
		switch(kind % 6) { case 5: if constexpr(DD >= 3) { f(b.rotated().transposed().unrotated()); return true; } return false; case 0: if constexpr(DD >= 2) { f(b.transposed()); return true; } return false; case 1: f(b.rotated()); return true;
			case 2: f(b.sliced(b.extension().first() + 1, b.extension().last())); return true; case 3: if constexpr(DD == 1) { f(b.strided(2)); return true; } return false; default: f(b.unrotated()); return true; }
	}
	return false;
}
template<class AA, class F, int DD = D> void with_view(int kind, AA& b, F&& f) {
	if constexpr(DD >= 1) {
		switch(kind % 6) { case 5: if constexpr(DD >= 3) { f(b.rotated().transposed().unrotated()); } break; case 0: if constexpr(DD >= 2) { f(b.transposed()); } break; case 1: f(b.rotated()); break; case 2: f(b.sliced(b.extension().first() + 1, b.extension().last())); break; case 3: f(b.strided(2)); break; default: f(b.unrotated()); break; }
	}
}

static void adopt(Slot& s) {  // valid-but-unspecified state: take extents and contents from the array itself
	if(D == 0) { s.m.unspec = true; return; } if(s.a->num_elements() == 0) { s.m = empty_model(); return; } s.m.ext = tuple_to_vec(s.a->sizes()); s.m.ids.assign(std::size_t(s.m.n()), 0); s.m.unspec = true; s.m.base_known = false; }
static std::vector<L> rnd_base(Rng& g) { std::vector<L> b(std::size_t(D), 0); if(g.chance(1, 5)) for(auto& x : b) x = g.in(-2, 2); return b; }
static Alloc pick_alloc(Rng& g) { return VARY_ALLOC ? Alloc(int(g.below(3))) : Alloc(0); }

static void check_all(std::vector<Slot>& pool, std::string const& opk, bool c06op) {
	poll();
	std::string const P = c06op ? "C06:" : "C04:";
	// value model
	for(std::size_t i = 0; i < pool.size(); ++i) if(pool[i].a) { std::string why; if(!matches(*pool[i].a, pool[i].m, why)) V(P + opk + ":array-differs-from-model", "after " + cur_op + ": slot " + std::to_string(i) + ": " + why); }
	// storage of live non-empty arrays pairwise disjoint
	for(std::size_t i = 0; i < pool.size(); ++i) for(std::size_t j = i + 1; j < pool.size(); ++j) if(pool[i].a && pool[j].a && pool[i].a->num_elements() > 0 && pool[j].a->num_elements() > 0) {
		Elem const* a0 = pool[i].a->data_elements(); Elem const* a1 = a0 + pool[i].a->num_elements(); Elem const* b0 = pool[j].a->data_elements(); Elem const* b1 = b0 + pool[j].a->num_elements();
		if(a0 < b1 && b0 < a1) V("C04:" + opk + ":storage-shared", "after " + cur_op + ": two arrays share storage"); }
	// registry / ledger (C08): live elements == sum of num_elements; outstanding blocks == non-empty arrays; block sizes match
	L sum = 0, nonempty = 0; for(auto& s : pool) if(s.a) { sum += s.a->num_elements(); if(s.a->num_elements() > 0) ++nonempty; }
#if H_T == 1 || H_T == 4
	if(L(registry().live.size()) != sum) V("C08:" + opk + ":live-elements-vs-extents", "after " + cur_op + ": " + std::to_string(registry().live.size()) + " live element objects but the arrays hold " + std::to_string(sum) + " elements");
#endif
	if(L(ledger().blocks.size()) != nonempty) V("C08:" + opk + ":outstanding-blocks", "after " + cur_op + ": " + std::to_string(ledger().blocks.size()) + " outstanding blocks for " + std::to_string(nonempty) + " non-empty arrays");
	for(auto& s : pool) if(s.a && s.a->num_elements() > 0) { auto it = ledger().blocks.find(const_cast<Elem*>(s.a->data_elements())); if(it == ledger().blocks.end()) V("C08:" + opk + ":storage-not-from-allocator", "after " + cur_op + ": data_elements() is not an outstanding block of the allocator");
		else { if(L(it->second.n) != s.a->num_elements()) V("C08:" + opk + ":block-size-vs-extents", "block of " + std::to_string(it->second.n) + " elements backs an array of " + std::to_string(s.a->num_elements()));
			if(!AEQ && it->second.id != s.a->get_allocator().id) V("C10:" + opk + ":block-owned-by-other-allocator", "after " + cur_op + ": array holds a block produced by allocator #" + std::to_string(it->second.id) + " while get_allocator() is #" + std::to_string(s.a->get_allocator().id)); } }
	// expected allocator (C10)
	for(std::size_t i = 0; i < pool.size(); ++i) if(pool[i].a) { auto al = pool[i].a->get_allocator();
		if(al.id != pool[i].aid) V("C10:" + opk + ":allocator-identity", "after " + cur_op + ": slot " + std::to_string(i) + " get_allocator() is #" + std::to_string(al.id) + ", traits prescribe #" + std::to_string(pool[i].aid));
		else if(al.gen != pool[i].agen) V("C10:" + opk + ":select_on_container_copy_construction", "after " + cur_op + ": allocator obtained through " + std::to_string(al.gen) + " select_on_container_copy_construction hops, expected " + std::to_string(pool[i].agen)); }
	poll();
}

template<int DD> void history_t(Case& c) {
	Rng& g = c.rng; registry().reset(); ledger().reset(); faults().disarm(); faults().reset_counts(); next_id = 1;
	{
		std::vector<Slot> pool(4);
		int const steps = int(g.in(3, MAXSTEPS)); int done = 0; bool had_assign_over_state = false;
		describe("T=" + std::to_string(H_T) + " D=" + std::to_string(D) + " TR=" + std::to_string(H_TR) + ":");
		for(int s = 0; s < steps; ++s) {
			std::size_t a = std::size_t(g.below(4)), b = std::size_t(g.below(4)); int o = int(g.below(29)); auto e = rnd_ext(g);
			if(!pool[a].a && g.chance(3, 4)) o = int(g.below(2));  // empty slot: mostly construct something first, so that histories are not dominated by inapplicable steps
			if(!pool[b].a && pool[a].a && a != b && g.chance(1, 2)) std::swap(a, b);
			Slot& A = pool[a]; Slot& B = pool[b]; std::string opk; bool c06 = false; std::ostringstream d;
			auto estr = [&] { return join(e, "x"); };
			switch(o) {
			case 0: { opk = "ctor(ext)"; d << opk << "(" << a << "," << estr() << ")"; cur_op = d.str(); op(opk); softcfg().opk = opk; auto al = pick_alloc(g); A.a.reset(); bool wa = g.chance(1, 2);
				auto bs = rnd_base(g); if(wa) A.a.emplace(make_extensions<D>(bs, e), al); else A.a.emplace(make_extensions<D>(bs, e)); A.m = filled(e, 0); A.m.base = bs; A.m.base_known = (A.m.n() > 0); A.m.unspec = TRIVIAL; A.aid = wa ? al.id : 0; A.agen = 0;
				if(TRIVIAL && A.a->num_elements() > 0) { Elem const* p = A.a->data_elements(); for(L k = 0; k < A.a->num_elements(); ++k) if(!is_poison(p[k])) { V("C08:ctor(ext):wrote-trivial-elements", "sizing constructor wrote to elements of a trivially default-constructible type"); break; } count("poison_checks"); }
				break; }
			case 1: { opk = "ctor(ext,value)"; d << opk << "(" << a << "," << estr() << ")"; cur_op = d.str(); op(opk); softcfg().opk = opk; auto al = pick_alloc(g); long id = next_id++; A.a.reset(); bool wa = g.chance(1, 2);
				auto bs = rnd_base(g); bool fillctor = false;
#if H_D == 1 && H_T != 2  // the 1-D fill constructor takes one index extension (for std::string elements that call is taken for string(count, char) and does not compile on the pinned tree)
				if(g.chance(1, 4)) { fillctor = true; count("ctor(index_extension,value)"); multi::index_extension const ie(bs[0], bs[0] + e[0]); if(wa) A.a.emplace(ie, mk(id), al); else A.a.emplace(ie, mk(id)); }
#endif
				if(!fillctor) { if(wa) A.a.emplace(make_extensions<D>(bs, e), mk(id), al); else A.a.emplace(make_extensions<D>(bs, e), mk(id)); } A.m = filled(e, id); A.m.base = bs; A.m.base_known = (A.m.n() > 0); A.aid = wa ? al.id : 0; A.agen = 0; break; }
			case 2: { if(!B.a || a == b) break; opk = "copy-ctor"; d << opk << "(" << a << "<-" << b << ")"; cur_op = d.str(); op(opk); softcfg().opk = opk; A.a.reset(); A.a.emplace(*B.a); A.m = B.m; A.aid = B.aid; A.agen = B.agen + 1; break; }
			case 3: { if(!B.a || a == b) break; opk = "copy-ctor(alloc)"; d << opk << "(" << a << "<-" << b << ")"; cur_op = d.str(); op(opk); softcfg().opk = opk; auto al = pick_alloc(g); A.a.reset(); A.a.emplace(*B.a, al); A.m = B.m; A.aid = al.id; A.agen = 0; break; }
			case 4: { if(!B.a || a == b) break; opk = "move-ctor"; d << opk << "(" << a << "<-" << b << ")"; cur_op = d.str(); op(opk); softcfg().opk = opk; A.a.reset(); long c0 = registry().special();
				A.a.emplace(std::move(*B.a)); if(registry().special() != c0) V("C04:move-ctor:touched-elements", "move construction copied/moved/assigned " + std::to_string(registry().special() - c0) + " elements");
				A.m = B.m; B.m = empty_model(); A.aid = B.aid; A.agen = B.agen; if(D == 0) { B.m = A.m; B.m.unspec = true; } break; }
			case 5: { if(!B.a || a == b) break; auto al = pick_alloc(g); if(!AEQ && al.id != B.aid) { count("skipped:move-ctor(alloc)-unequal"); if(!VARY_ALLOC) break; }
				opk = (AEQ || al.id == B.aid) ? "move-ctor(alloc)" : "move-ctor(unequal-alloc)"; d << opk << "(" << a << "<-" << b << ")"; cur_op = d.str(); op(opk); softcfg().opk = opk; A.a.reset(); A.a.emplace(std::move(*B.a), al); A.m = B.m; A.aid = al.id; A.agen = 0;
				B.m = empty_model(); if(D == 0) { B.m = A.m; B.m.unspec = true; } break; }  // (also between unequal allocators, where the elements are moved one by one: the source is left empty)
			case 6: case 7: { if(!A.a || !B.a) break; opk = a == b ? "self-copy-assign" : (A.m.ext == B.m.ext ? "copy-assign(same-extents)" : (A.m.n() == 0 ? "copy-assign(to-empty)" : "copy-assign(other-extents)")); d << opk << "(" << a << "<-" << b << ")"; cur_op = d.str(); op(opk); softcfg().opk = opk;
				Elem const* before = A.a->data_elements(); Arr const& src = *B.a; *A.a = src; if(a == b && A.a->data_elements() != before) V("C04:self-copy-assign:reallocated", "self-assignment changed the storage");
				if(a != b) { A.m = B.m; if(POCCA) { A.aid = B.aid; A.agen = B.agen; } had_assign_over_state = true; } break; }
			case 8: { if(!A.a || !B.a || a == b) break; if(!AEQ && !POCMA && A.aid != B.aid) { count("skipped:move-assign-unequal"); if(!VARY_ALLOC) break; }
				bool uneq = (!AEQ && !POCMA && A.aid != B.aid);
				opk = uneq ? "move-assign(unequal-alloc)" : (A.m.n() == 0 ? "move-assign(to-empty)" : "move-assign"); d << opk << "(" << a << "<-" << b << ")"; cur_op = d.str(); op(opk); softcfg().opk = opk; long c0 = registry().special();
				*A.a = std::move(*B.a); if(!uneq && registry().special() != c0) V("C04:move-assign:touched-elements", "move assignment copied/moved/assigned " + std::to_string(registry().special() - c0) + " elements");
				A.m = B.m; if(POCMA) { A.aid = B.aid; A.agen = B.agen; } B.m = empty_model(); if(D == 0) { B.m = A.m; B.m.unspec = true; } had_assign_over_state = true; break; }
			case 9: if constexpr(DD >= 1) { if(!A.a || !B.a || a == b) break; if(!AEQ && !POCS && A.aid != B.aid) break; opk = "swap"; d << opk << "(" << a << "," << b << ")"; cur_op = d.str(); op(opk); softcfg().opk = opk; long c0 = registry().special();
				if(g.chance(1, 2)) swap(*A.a, *B.a); else A.a->swap(*B.a); if(registry().special() != c0) V("C04:swap:touched-elements", "swap of arrays touched elements"); std::swap(A.m, B.m); if(POCS) { std::swap(A.aid, B.aid); std::swap(A.agen, B.agen); } break; } break;
			case 10: case 11: { if(!A.a || !B.a || a == b) break; Model vm; MV mv; int k = int(g.below(6)); if(!view_of(k, B.m, vm, mv)) break; static char const* VN[] = {"transposed", "rotated", "sliced", "strided", "unrotated", "inner-transposed"};
				opk = std::string("assign-from-view") + (A.m.ext == vm.ext ? "(same-extents)" : "(other-extents)"); d << opk << "(" << a << "<-" << b << "." << VN[k] << ")"; cur_op = d.str(); op(opk); softcfg().opk = opk;
				{ bool done_const = false; if(g.chance(1, 3)) { done_const = with_const_view(k, *B.a, [&](auto&& v) { auto const& cv = v; *A.a = cv; }); if(done_const) count("assign-from-const-view"); }
					if(!done_const) with_view(k, *B.a, [&](auto&& v) { if(g.chance(1, 3)) { auto const& cv = v; *A.a = cv; } else { *A.a = v; } }); }
				A.m = vm; A.m.base_known = false; had_assign_over_state = true;
				break; }
			case 12: { if(!B.a || a == b) break; Model vm; MV mv; int k = int(g.below(6)); if(!view_of(k, B.m, vm, mv)) break; opk = "ctor(view)"; d << opk << "(" << a << "<-" << b << " view" << k << ")"; cur_op = d.str(); op(opk); softcfg().opk = opk; A.a.reset(); auto al = pick_alloc(g); bool wa = g.chance(1, 2);
				{ bool done_const = false; if(g.chance(1, 3)) done_const = with_const_view(k, *B.a, [&](auto&& v) { if(wa) A.a.emplace(v, al); else A.a.emplace(v); });
					if(!done_const) { bool const rvalue_view = g.chance(1, 3); if(rvalue_view) count("ctor(view):rvalue-view");  // a named view (copied from) or an expiring one (the constructors taking subarray&&): elements are copied either way, a view is reference-like
						with_view(k, *B.a, [&](auto&& v) { if(rvalue_view) { if(wa) A.a.emplace(std::move(v), al); else A.a.emplace(std::move(v)); } else { if(wa) A.a.emplace(v, al); else A.a.emplace(v); } }); } }
				A.m = vm; A.m.base_known = false; A.aid = wa ? al.id : 0; A.agen = 0; break; }
			case 13: if constexpr(DD >= 1) { if(!A.a) break; opk = std::string("assign-from-other-element-type"); Model nm = fresh(e); if(nm.n() == 0) break; opk += (A.m.ext == e ? "(same-extents)" : (A.m.n() == nm.n() ? "(same-count)" : "(other-extents)")); d << opk << "(" << a << "," << estr() << ")"; cur_op = d.str(); op(opk); softcfg().opk = opk;
				OArr O(make_extensions<D>(e)); { Other* p = O.data_elements(); for(L k2 = 0; k2 < nm.n(); ++k2) p[k2] = mko(nm.ids[std::size_t(k2)]); } *A.a = O; A.m = nm; had_assign_over_state = true; break; } break;
			case 14: if constexpr(DD >= 1) { if(!A.a || D == 0) break; c06 = true; bool fill = g.chance(1, 2); bool rv = !fill && g.chance(1, 4); opk = rv ? "reextent(&&)" : (fill ? "reextent(x,v)" : "reextent(x)");
				std::vector<L> ob(std::size_t(D), 0); if(A.m.n() > 0) { if(A.m.base_known) ob = A.m.base; else { ob.clear(); std::apply([&](auto const&... x) { (ob.push_back(L(x.first())), ...); }, A.a->extensions().base()); } } std::vector<L> nb(std::size_t(D), 0); if(g.chance(1, 3)) { for(auto& x : nb) x = g.in(-3, 6); count("reextent-to-re-based-extensions"); } bool const same = (A.m.ext == e) && (ob == nb);  // the requested extensions start at nb (one time in three not at 0)
				char const* cls = same ? "same" : (A.m.n() == 0 ? "from-empty" : (Model{e, {}}.n() == 0 ? "to-empty" : "other")); d << opk << "(" << a << "," << join(A.m.ext, "x") << "->" << estr() << ")"; cur_op = d.str(); op(opk + ":" + cls); softcfg().opk = opk;
				long fid = fill ? next_id++ : 0; Model nm = filled(e, fid); std::vector<char> isnew(std::size_t(nm.n()), 1);
				if(A.m.n() > 0 && nm.n() > 0) { MV om = MV::root(A.m.ext), nn = MV::root(e); std::vector<L> ix; for(L k = 0; k < nm.n(); ++k) { nn.unlin(k, ix); bool in = true; std::vector<L> ox = ix; for(int q = 0; q < D; ++q) { ox[std::size_t(q)] += nb[std::size_t(q)] - ob[std::size_t(q)]; in &= ox[std::size_t(q)] >= 0 && ox[std::size_t(q)] < A.m.ext[std::size_t(q)]; } if(in) { ix = ox; nm.ids[std::size_t(k)] = A.m.ids[std::size_t(om.lin(ix))]; isnew[std::size_t(k)] = 0; } } }
				Elem const* before = A.a->data_elements(); bool const noop = same;
				if(rv) { std::move(*A.a).reextent(make_extensions<D>(nb, e)); } else if(fill) { A.a->reextent(make_extensions<D>(nb, e), mk(fid)); } else { A.a->reextent(make_extensions<D>(nb, e)); }
				if(same && A.a->data_elements() != before) V("C06:" + opk + ":noop-reallocated", "reextent to the current extents changed data_elements()");
				(void)noop;
				if(rv && !same) { nm = filled(e, 0); nm.unspec = TRIVIAL;  // the rvalue overload discards the contents by design: the elements are value-initialised (model id 0) or, for trivial types, left unwritten
					if(TRIVIAL && nm.n() > 0 && tuple_to_vec(A.a->sizes()) == e) { Elem const* p = A.a->data_elements(); bool wrote = false; for(L k = 0; k < nm.n(); ++k) if(!is_poison(p[k])) wrote = true; count("poison_checks"); if(wrote) V("C08:reextent(&&):wrote-trivial-elements", "the rvalue reextent wrote to elements of a trivially default-constructible type"); } }
				else if(!fill && TRIVIAL && !same && nm.n() > 0) {  // new elements of a trivially default-constructible type are unspecified — and must not have been written (C08)
					Elem const* p = A.a->data_elements(); bool wrote = false; for(L k = 0; k < nm.n(); ++k) if(isnew[std::size_t(k)]) { if(L(tuple_to_vec(A.a->sizes()) == e) && !is_poison(p[k])) wrote = true; nm.ids[std::size_t(k)] = id_of(p[k]); } count("poison_checks");
					if(wrote) V("C08:reextent(x):wrote-trivial-elements", "reextent without a fill value wrote to new elements of a trivially default-constructible type"); }
#ifdef HIST_VALUE_INIT_OBSERVABLE  // C06: without a fill value the new elements are VALUE-initialised (a member without initialiser reads 0, not the poison of the fresh block)
				if(!fill && !same && nm.n() > 0 && tuple_to_vec(A.a->sizes()) == e) { Elem const* p = A.a->data_elements(); for(L k = 0; k < nm.n(); ++k) if((rv || isnew[std::size_t(k)]) && !value_initialised(p[k])) { V("C06:" + opk + ":new-element-not-value-initialised", "a new element after reextent without a fill value is default-initialised (its member without initialiser holds the bytes of the fresh block), not value-initialised"); break; } count("value-initialisation-checks"); }
#endif
				A.m = nm; A.m.base = nb; A.m.base_known = (nm.n() > 0); break; } break;
			case 15: if constexpr(DD >= 1) { if(!A.a) break; c06 = true; bool il = g.chance(1, 2); opk = il ? "assign={}" : "clear"; d << opk << "(" << a << ")"; cur_op = d.str(); op(opk); softcfg().opk = opk; if(il) *A.a = {}; else A.a->clear();
				{ auto const sz = tuple_to_vec(A.a->sizes()); bool allzero = true; for(L x : sz) allzero &= (x == 0); count("clear:canonical-empty-checks");  // "an empty valid array": the canonical one, whatever (possibly zero-element yet shaped, e.g. 0x5) state it had
					if(!allzero || !(A.a->extensions() == typename Arr::extensions_type{})) V("C06:" + opk + ":not-canonical-empty", "after " + opk + " the array reports sizes " + join(sz, "x") + ": not the extensions of a default-constructed array"); else if(!(*A.a == Arr{})) V("C06:" + opk + ":not-equal-to-default-constructed", "a cleared array does not compare equal to a default-constructed one"); }
				A.m = empty_model(); if(D == 0) { A.m.unspec = true; A.m.ids = {0}; } break; } break;
			case 16: { if(!A.a || D == 0 || A.m.n() == 0) break; c06 = true; std::vector<L> ne = A.m.ext; std::size_t i = std::size_t(g.below(D)), j = std::size_t(g.below(D)); std::swap(ne[i], ne[j]); if(D >= 2 && g.chance(1, 2)) { L nn = A.m.n(); ne.assign(std::size_t(D), 1); ne[std::size_t(g.below(D))] = nn; }
				opk = "reshape"; d << opk << "(" << a << "," << join(A.m.ext, "x") << "->" << join(ne, "x") << ")"; cur_op = d.str(); op(opk); softcfg().opk = opk; Elem const* before = A.a->data_elements(); A.a->reshape(make_extensions<D>(ne)); if(A.a->data_elements() != before) V("C06:reshape:reallocated", "reshape changed data_elements()"); A.m.ext = ne; A.m.base.assign(std::size_t(D), 0); A.m.base_known = true; break; }
			case 17: { if(!A.a || D != 1) break; c06 = true; Model nm = fresh({g.in(1, MAXEXT + 1)});  // (an empty iterator pair makes the library evaluate *first on an end iterator — formed, never read; excluded, see DESIGN.md)
				opk = std::string("assign(first,last)") + (nm.ext == A.m.ext ? "(same-size)" : "(other-size)"); d << opk << "(" << a << "," << nm.ext[0] << ")"; cur_op = d.str(); op(opk); softcfg().opk = opk;
				std::vector<Elem> src; for(long id : nm.ids) src.push_back(mk(id)); if constexpr(DD == 1) { if(g.chance(1, 2)) A.a->assign(src.begin(), src.end()); else A.a->assign(src); } A.m = nm; break; }
			case 18: { if(!A.a || !B.a || a == b || D < 2 || B.m.n() == 0) break; c06 = true; opk = "assign(first,last)(rows)"; d << opk << "(" << a << "<-rows of " << b << ")"; cur_op = d.str(); op(opk); softcfg().opk = opk; if constexpr(DD >= 2) { A.a->assign(B.a->begin(), B.a->end()); } A.m = B.m; A.m.base_known = false; break; }
			case 19: { if(!A.a || A.m.n() == 0) break; opk = "element-write"; L k = g.below(A.m.n()); long id = next_id++; d << opk << "(" << a << ",#" << k << ")"; cur_op = d.str(); op(opk); softcfg().opk = opk;
				if constexpr(DD == 0) { *A.a->data_elements() = mk(id); } else { std::vector<L> ix; MV::root(A.m.ext).unlin(k, ix); { std::vector<L> fs; std::apply([&](auto const&... x) { (fs.push_back(L(x.first())), ...); }, A.a->extensions().base()); for(std::size_t q = 0; q < ix.size(); ++q) ix[q] += (A.m.base_known ? A.m.base[q] : fs[q]); } brk(*A.a, ix) = mk(id); } A.m.ids[std::size_t(k)] = id; break; }
			case 20: { if(!B.a || a == b) break; opk = "decay(+)"; d << opk << "(" << a << "<-+" << b << ")"; cur_op = d.str(); op(opk); softcfg().opk = opk; A.a.reset();
				if(B.m.n() > 0) { auto&& kept = +*B.a; static_assert(!std::is_reference_v<decltype(+*B.a)>, "unary plus yields a new array by value");  // bound by reference: the result is a NEW array, not the operand
					if(static_cast<void const*>(kept.data_elements()) == static_cast<void const*>(B.a->data_elements())) V("C04:decay(+):aliases-its-operand", "+A bound to a reference designates A's own storage: unary plus did not make a copy"); count("decay(+):kept-by-reference"); }
				{ int form = int(g.below(4));
#if !(H_T == 2 && H_D == 1)  // (+ of a const array<string,1> brace-initialises its result: the initializer_list constructor is tried and it does not compile on the pinned tree)
				if(form == 3) { A.a.emplace(+std::as_const(*B.a)); count("decay(+const)"); }
#endif
				if(form == 3) form = 0; if(A.a) { (void)0; } else if(form == 0) { A.a.emplace(+*B.a); } else if(form == 1) A.a.emplace(B.a->decay()); else {
#if !(H_T == 2 && H_D == 1)
					A.a.emplace(+std::move(*B.a)); count("decay(+rvalue)");
#else
					A.a.emplace(+*B.a); count("not-compilable:+std::move(array<string,1>) (operator+()&& brace-initialises: the initializer_list constructor is tried)");
#endif
				} }  // unary plus of an rvalue is still a copy: the operand keeps its value
				A.m = B.m; A.m.base_known = false; { auto al = A.a->get_allocator(); A.aid = al.id; A.agen = al.gen; } count("decay"); break; }
			case 21: { if(!A.a) break; c06 = true; if(D == 0 || D > 3) break;  // nested initializer lists (compile-time shapes)
				opk = "assign-init-list"; d << opk << "(" << a << ")"; cur_op = d.str(); op(opk); softcfg().opk = opk; long i0 = next_id; next_id += 6;
				if constexpr(DD == 1) { int w = int(g.below(3)); if(w == 0) { *A.a = {mk(i0), mk(i0 + 1), mk(i0 + 2)}; A.m.ext = {3}; A.m.ids = {i0, i0 + 1, i0 + 2}; } else if(w == 1) { *A.a = {mk(i0)}; A.m.ext = {1}; A.m.ids = {i0}; } else { *A.a = {mk(i0), mk(i0 + 1), mk(i0 + 2), mk(i0 + 3), mk(i0 + 4)}; A.m.ext = {5}; A.m.ids = {i0, i0 + 1, i0 + 2, i0 + 3, i0 + 4}; } }
				else if constexpr(DD == 2) { int w = int(g.below(3)); if(w == 0) { *A.a = {{mk(i0), mk(i0 + 1)}, {mk(i0 + 2), mk(i0 + 3)}}; A.m.ext = {2, 2}; A.m.ids = {i0, i0 + 1, i0 + 2, i0 + 3}; } else if(w == 1) { *A.a = {{mk(i0), mk(i0 + 1), mk(i0 + 2)}}; A.m.ext = {1, 3}; A.m.ids = {i0, i0 + 1, i0 + 2}; } else { *A.a = {{mk(i0)}, {mk(i0 + 1)}, {mk(i0 + 2)}}; A.m.ext = {3, 1}; A.m.ids = {i0, i0 + 1, i0 + 2}; } }
				else if constexpr(DD == 3) { if(g.chance(1, 2)) { *A.a = {{{mk(i0), mk(i0 + 1)}}, {{mk(i0 + 2), mk(i0 + 3)}}}; A.m.ext = {2, 1, 2}; } else { *A.a = {{{mk(i0)}, {mk(i0 + 1)}}, {{mk(i0 + 2)}, {mk(i0 + 3)}}}; A.m.ext = {2, 2, 1}; } A.m.ids = {i0, i0 + 1, i0 + 2, i0 + 3}; }
				A.m.unspec = false; A.m.base_known = false; break; }
			case 22: { if(D == 0 || D > 2) break; opk = "ctor(init-list)"; d << opk << "(" << a << ")"; cur_op = d.str(); op(opk); softcfg().opk = opk; long i0 = next_id; next_id += 4; A.a.reset();
				{ auto al = pick_alloc(g); bool const wa = g.chance(1, 2);  // also the allocator-extended form array({...}, alloc): the supplied allocator is the array's allocator and owns its block
				if constexpr(DD == 1) { if(wa) { A.a.emplace(std::initializer_list<Elem>{mk(i0), mk(i0 + 1), mk(i0 + 2)}, al); } else { Arr tmp = {mk(i0), mk(i0 + 1), mk(i0 + 2)}; A.a.emplace(std::move(tmp)); } A.m.ext = {3}; A.m.ids = {i0, i0 + 1, i0 + 2}; }
				else if constexpr(DD == 2) { if(wa) { A.a.emplace(std::initializer_list<typename Arr::value_type>{{mk(i0), mk(i0 + 1)}, {mk(i0 + 2), mk(i0 + 3)}}, al); } else { Arr tmp = {{mk(i0), mk(i0 + 1)}, {mk(i0 + 2), mk(i0 + 3)}}; A.a.emplace(std::move(tmp)); } A.m.ext = {2, 2}; A.m.ids = {i0, i0 + 1, i0 + 2, i0 + 3}; }
				A.m.unspec = false; A.m.base_known = false; A.aid = wa ? al.id : 0; A.agen = 0; if(wa) { opk = "ctor(init-list,alloc)"; softcfg().opk = opk; } } break; }
			case 23: { if(!B.a || D != 1) break; opk = "ctor(first,last)"; d << opk << "(" << a << "<-elems of " << b << ")"; cur_op = d.str(); op(opk); softcfg().opk = opk; if constexpr(DD == 1) { std::vector<Elem> src; for(long id : B.m.ids) src.push_back(mk(id)); if(B.m.unspec || src.empty()) break; A.a.reset(); A.a.emplace(src.begin(), src.end()); A.m = B.m; A.m.base_known = false; A.aid = 0; A.agen = 0; } break; }
			case 26: { if(!A.a) break; Model vm; MV mv; int k = int(g.below(6)); if(!view_of(k, A.m, vm, mv) || A.m.unspec) break; static char const* VN2[] = {"transposed", "rotated", "sliced", "strided", "unrotated", "inner-transposed"};
				opk = std::string("assign-from-own-view") + (A.m.ext == vm.ext ? "(same-extents)" : (A.m.n() == vm.n() ? "(same-count)" : "(other-extents)")); if(A.m.n() == vm.n()) break;  // an overlapping assignment that reuses the storage (same extents or same element count) is not in domain, see DESIGN.md
				d << opk << "(" << a << "<-" << a << "." << VN2[k] << ")"; cur_op = d.str(); op(opk); softcfg().opk = opk; with_view(k, *A.a, [&](auto&& v) { *A.a = v; }); A.m = vm; A.m.base_known = false; had_assign_over_state = true; break; }
			case 27: { if(!A.a || !B.a || a == b || D < 3 || B.m.n() == 0 || B.m.unspec) break; c06 = true;  // (3) assign(first,last) / assignment from the rows of an array with the same row count and element count but other inner extents
				{ std::vector<L> ne = B.m.ext; std::swap(ne[1], ne[std::size_t(D - 1)]); if(ne == B.m.ext) break; Model tm = fresh(ne); A.a.reset(); A.a.emplace(make_extensions<D>(ne), mk(0)); write_ids(*A.a, tm); A.m = tm; A.m.base.assign(std::size_t(D), 0); A.m.base_known = true; A.aid = 0; A.agen = 0; }
				opk = "assign(first,last)(rows,same-count-other-inner-extents)"; d << opk << "(" << a << "<-rows of " << b << ")"; cur_op = d.str(); op(opk); softcfg().opk = opk; if constexpr(DD >= 3) { A.a->assign(B.a->begin(), B.a->end()); } A.m.ext = B.m.ext; A.m.ids = B.m.ids; A.m.base_known = false; break; }
			case 25: if constexpr(DD >= 1) { Model nm = fresh(e); if(nm.n() == 0) break; opk = "ctor(array_ref)"; d << opk << "(" << a << "," << estr() << ")"; cur_op = d.str(); op(opk); softcfg().opk = opk;  // an owning array built from a non-owning reference over foreign storage (non-const and const reference objects)
				std::vector<Elem> buf; for(long id : nm.ids) buf.push_back(mk(id)); multi::array_ref<Elem, D> R(make_extensions<D>(e), buf.data()); A.a.reset(); { int const f = int(g.below(4)); if(f == 0) A.a.emplace(R); else if(f == 1) A.a.emplace(std::as_const(R)); else if(f == 2) A.a.emplace(std::move(R)); else A.a.emplace(multi::array_ref<Elem, D>(make_extensions<D>(e), buf.data())); }  // an array_ref is a reference: copying from an expiring one still copies the elements
				for(L k = 0; k < nm.n(); ++k) if(id_of(buf[std::size_t(k)]) != nm.ids[std::size_t(k)]) { V("C04:ctor(array_ref):source-modified", "constructing an array from an array_ref (any value category) changed the referenced elements"); break; }
				if(A.a->data_elements() == buf.data()) V("C04:ctor(array_ref):storage-shared", "an array constructed from an array_ref uses the referenced storage"); A.m = nm; A.m.base.assign(std::size_t(D), 0); A.m.base_known = true; A.aid = 0; A.agen = 0; } break;
			case 24: { opk = "destroy"; d << opk << "(" << a << ")"; cur_op = d.str(); op(opk); softcfg().opk = opk; A.a.reset(); A.m = Model{}; break; }
			default: if constexpr(DD >= 1) { if(!A.a) break; opk = "default-ctor+assign"; d << opk << "(" << a << ")"; cur_op = d.str(); op(opk); softcfg().opk = opk; Arr tmp; tmp = *A.a; std::string why; Model mm = A.m; if(!matches(tmp, mm, why)) V("C04:default-ctor+assign:array-differs-from-model", why); break; } break;
			}
			if(opk.empty()) continue;
			describe(" " + d.str()); sig_mix(opk.c_str()); count("op:" + opk); ++done;
			check_all(pool, opk, c06);
			// moved-from sources are empty yet valid: assignable and destructible is exercised by later steps; here: is_empty consistent
		}
		nontrivial(done >= 3 && had_assign_over_state);
		cur_op = "end-of-history(destroy all)"; op("destroy-all"); softcfg().opk = "destroy-all";
	}
	// after the last array died nothing is outstanding
	poll();
#if H_T == 1 || H_T == 4
	if(!registry().live.empty()) V("C08:end:leaked-elements", std::to_string(registry().live.size()) + " element objects still alive after the last array died");
#endif
	if(!ledger().blocks.empty()) V("C08:end:leaked-blocks", std::to_string(ledger().blocks.size()) + " blocks outstanding after the last array died");
	count("ledger_allocs", ledger().n_alloc); count("ledger_deallocs", ledger().n_dealloc);
#if H_T == 1
	count("elements_constructed", registry().cc + registry().mc + registry().dc + registry().vc); count("elements_destroyed", registry().dtor);
#endif
}

int main(int argc, char** argv) {
	return main_loop(argc, argv, [&](Case& c) {
		static bool init = false; if(!init) { init = true; auto& a = st().args;
			for(std::size_t i = 0; i < a.size(); ++i) { auto val = [&] { return i + 1 < a.size() ? a[i + 1] : std::string(); };
				if(a[i] == "--prop") PROP = val(); else if(a[i] == "--maxext") MAXEXT = std::atoi(val().c_str()); else if(a[i] == "--steps") MAXSTEPS = std::atoi(val().c_str()); else if(a[i] == "--vary-alloc") VARY_ALLOC = true; } }
		install_soft_sink(); history_t<D>(c);
	});
}
