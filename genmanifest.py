#!/usr/bin/env python3
"""Regenerates MANIFEST.json from checks.py (REGISTRY) + the not-applicable table below."""
import json, os, sys
sys.path.insert(0, os.path.dirname(os.path.abspath(__file__)))
from checks import REGISTRY
props = [json.loads(l) for l in open('properties.jsonl')]
NA = {}  # property_id -> reason (only for properties without a check)
BASE = ("cmake -G Ninja -S /repo -B /repo/_build -DCMAKE_BUILD_TYPE=RelWithDebInfo -DCMAKE_CXX_FLAGS=-Wno-error >/dev/null && cmake --build /repo/_build -j16 && "
        "OMPI_ALLOW_RUN_AS_ROOT=1 OMPI_ALLOW_RUN_AS_ROOT_CONFIRM=1 ctest --test-dir /repo/_build -j8 --timeout 900")
m = dict(version=1, setup_cmd='./vcheck --setup',
         hooks=dict(guard='BOOST_MULTI_VERIF', enable='no in-repo hooks: all instrumentation is external (template parameters, shadow <cassert> via -isystem /verif/kit/shadow, link-time interposers); checks compile their harnesses against /repo/include of the working tree',
                    baseline_off_cmd=BASE, source_commits=[], add_only=True),
         engines=[], checks=[], not_applicable=[],
         notes='Technique family: runtime monitoring and sanitizers. See DESIGN.md. known_findings.jsonl lists recorded/fixed findings.')
for p in props:
    pid = p['id']
    if pid in REGISTRY:
        r = REGISTRY[pid]
        m['checks'].append(dict(property_id=pid, quick_cmd='./vcheck %s quick' % pid, thorough_cmd='./vcheck %s thorough' % pid,
                                evidence_file='/verif/evidence/%s.json' % pid, replay_cmd_template='./vcheck %s --replay {path}' % pid,
                                engine=r.get('engine', 'vcheck'), level_claimed=dict(category=r.get('level', 'exploration'), text=r.get('level_text', r.get('rule', ''))[:1500], design_ref=r.get('design_ref', 'DESIGN.md section 4 ' + pid)),
                                level_note=r.get('level_note', '; '.join(r.get('assumptions', []))), technique=r.get('technique', 'runtime monitoring: generated workloads under ASan/UBSan with a reference-model oracle')))
    else:
        m['not_applicable'].append(dict(property_id=pid, reason=NA.get(pid, 'check not built yet in this round (planned, see DESIGN.md section 4); not claimed')))
json.dump(m, open('MANIFEST.json', 'w'), indent=1)
print('checks:', [c['property_id'] for c in m['checks']], 'n/a:', len(m['not_applicable']))
