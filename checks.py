import os
"""Per-property check definitions (what to build, what to run, how many cases per tier)."""
import re

def T(ctx, quick, thorough):
    return quick if ctx.tier == 'quick' else thorough

# ---------------------------------------------------------------------------------------------- C01
def c01(ctx, spec):
    builds = [dict(name='c01_d%d' % d, src='harness/c01_view.cpp', cfg='asan', defs=['C01_D=%d' % d]) for d in (1, 2, 3, 4)]
    builds += [dict(name='c01_direct_d%d' % d, src='harness/c01_view.cpp', cfg='asan', defs=['C01_D=%d' % d, 'C01_DIRECT']) for d in (1, 2, 3)]
    ctx.build(builds)
    n = T(ctx, 8000, 300000)
    for d in (1, 2, 3, 4):
        ctx.run_sharded('c01_d%d' % d, n, args=['--maxext', 5, '--maxops', 6], shards=4)
        ctx.run_sharded('c01_d%d' % d, n // 3, args=['--maxext', 6, '--maxops', T(ctx, 8, 10), '--zero', 8], label='c01z_d%d' % d, shards=4)
    for d in (1, 2, 3):
        ctx.run_sharded('c01_direct_d%d' % d, n // 3, args=['--maxext', 4, '--maxops', 4, '--zero', 3], shards=4)
    ctx.extra['not_compilable_on_pinned_tree'] = ['strided/dropped/taked/reversed() const& of D>1 views (skipped by construction)']

# ---------------------------------------------------------------------------------------------- C02
def c02(ctx, spec):
    ctx.build([dict(name='c02_d%d' % d, src='harness/c02_iter.cpp', cfg='asan', defs=['C02_D=%d' % d]) for d in (1, 2, 3, 4)])
    n = T(ctx, 5000, 250000)
    for d in (1, 2, 3, 4):
        ctx.run_sharded('c02_d%d' % d, n, args=['--maxext', 5, '--maxops', 5, '--walk', T(ctx, 30, 60)], shards=4)

# ---------------------------------------------------------------------------------------------- C03
def c03(ctx, spec):
    ctx.build([dict(name='c03', src='harness/c03_alg.cpp', cfg='asan')])
    n = T(ctx, 60000, 2400000)
    ctx.run_sharded('c03', n, args=['--maxext', 6, '--vals', 4])
    ctx.run_sharded('c03', n // 4, args=['--maxext', T(ctx, 7, 9), '--vals', 2], label='c03b')

# ---------------------------------------------------------------------------------------------- C07
def c07(ctx, spec):
    ctx.build([dict(name='c07_d%d' % d, src='harness/c07_cmp.cpp', cfg='asan', defs=['C07_D=%d' % d]) for d in (0, 1, 2, 3, 4)])
    n = T(ctx, 12000, 500000)
    for d in (0, 1, 2, 3, 4):
        ctx.run_sharded('c07_d%d' % d, n if d else n // 6, args=['--maxext', 3 if d < 4 else 2], shards=3)
    un = sorted(k for k in ctx.counters if k.startswith('unavailable:'))
    ctx.extra['operator_availability'] = {'unavailable (does not compile, skipped)': un[:80], 'n_available_pairs': len([k for k in ctx.counters if k.startswith('avail:')])}

# ---------------------------------------------------------------------------------------------- C05
def c05(ctx, spec):
    builds = [dict(name='c05_d%d' % d, src='harness/c05_assign.cpp', cfg='asan', defs=['C05_D=%d' % d]) for d in (1, 2, 3, 4)]
    builds += [dict(name='c05s_d%d' % d, src='harness/c05_assign.cpp', cfg='asan', defs=['C05_D=%d' % d, 'C05_STR']) for d in (1, 2, 3)]
    ctx.build(builds)
    n = T(ctx, 6000, 250000)
    for d in (1, 2, 3, 4): ctx.run_sharded('c05_d%d' % d, n, args=['--maxext', 5 if d < 4 else 4, '--maxops', 5], shards=3)
    for d in (1, 2, 3): ctx.run_sharded('c05s_d%d' % d, n // 2, args=['--maxext', 4, '--maxops', 4], shards=2)

# ---------------------------------------------------------------------------------------------- E-HIST: C04, C06, C08, C10
def hist_builds(cfgs):
    return [dict(name='hist_t%d_d%d_tr%d' % (t, d, tr), src='harness/hist.cpp', cfg='asan', defs=['H_T=%d' % t, 'H_D=%d' % d, 'H_TR=%d' % tr]) for (t, d, tr) in cfgs]

def hist_run(ctx, cfgs, n, extra=(), shards=2, zero_d=False):
    ctx.build(hist_builds(cfgs) + ([dict(name='hist0', src='harness/hist0.cpp', cfg='asan', defs=[], may_fail=True)] if zero_d else []))
    if zero_d:
        if not ctx.built['hist0']['ok']:   # the 0-D history uses only documented constructors / assignments of array<T,0>, with assertions enabled
            ctx.add_violation(ctx.pid + ':0-D:copy/assign-operations-do-not-compile', 'a history over array<T,0> (construct, copy, copy with allocator, move, assign) does not compile with assertions enabled: '
                              + ' | '.join(l.strip() for l in ctx.built['hist0']['log'].splitlines() if 'error' in l)[:500], desc='compile of harness/hist0.cpp against the tree')
        else: ctx.run_sharded('hist0', max(2000, n // 2), args=['--prop', ctx.pid], shards=shards)
    for (t, d, tr) in cfgs:
        ctx.run_sharded('hist_t%d_d%d_tr%d' % (t, d, tr), n, args=['--prop', ctx.pid, '--maxext', 3 if d < 4 else 2, '--steps', T(ctx, 12, 40)] + list(extra), shards=shards)
    other = {k: v for k, v in ctx.counters.items() if k.startswith('otherprop:')}
    if other: ctx.extra['violations_of_other_properties_seen_by_this_engine (reported by their own checks)'] = other

def sa_run(ctx, cfgs, n):
    """histories over multi::static_array (fixed extents: moves move the elements, assignments and swaps need equal extents)"""
    ctx.build([dict(name='sa_t%d_d%d' % (t, d), src='harness/sa_hist.cpp', cfg='asan', defs=['SA_T=%d' % t, 'SA_D=%d' % d]) for (t, d) in cfgs])
    for (t, d) in cfgs: ctx.run_sharded('sa_t%d_d%d' % (t, d), n, args=['--prop', ctx.pid, '--maxext', 3, '--steps', T(ctx, 12, 30)], shards=2)

def c04(ctx, spec):
    hist_run(ctx, [(1, 1, 0), (1, 2, 0), (1, 3, 0), (1, 4, 0), (0, 2, 0), (0, 3, 0), (2, 1, 0), (2, 2, 0)], T(ctx, 10000, 200000), zero_d=True)
    sa_run(ctx, [(1, 1), (1, 2), (2, 2), (1, 3)], T(ctx, 4000, 80000))
    # the same histories over three unequal instances of a stateful, non-propagating allocator: moves between unequal allocators move the elements and still leave the source empty
    for (t, d, tr) in [(1, 2, 0), (2, 1, 0)]: ctx.run_sharded('hist_t%d_d%d_tr%d' % (t, d, tr), T(ctx, 5000, 100000), args=['--prop', ctx.pid, '--maxext', 3, '--steps', T(ctx, 12, 40), '--vary-alloc'], shards=2, label='hist_t%d_d%d_tr%d(vary-alloc)' % (t, d, tr))
def c06(ctx, spec):
    hist_run(ctx, [(1, 1, 0), (1, 2, 0), (1, 3, 0), (1, 4, 0), (0, 1, 0), (0, 2, 0), (2, 2, 0), (2, 3, 0), (3, 1, 0), (3, 2, 0)], T(ctx, 10000, 200000))
def c08(ctx, spec):
    hist_run(ctx, [(1, 1, 0), (1, 2, 0), (1, 3, 0), (1, 4, 0), (0, 1, 0), (0, 2, 0), (0, 3, 0), (2, 2, 0), (3, 2, 0), (4, 1, 0), (4, 2, 0)], T(ctx, 10000, 200000), zero_d=True)  # H_T=4: construction / destruction tracked, assignment trivial
    sa_run(ctx, [(1, 1), (1, 2), (2, 1), (1, 3)], T(ctx, 4000, 80000))
    # blocks go back to the allocator INSTANCE that issued them: the same histories over unequal instances of allocators with every propagation trait
    cfgs = [(1, 2, tr) for tr in (0, 1, 2, 4, 7)]
    ctx.build(hist_builds(cfgs))
    for (t, d, tr) in cfgs: ctx.run_sharded('hist_t%d_d%d_tr%d' % (t, d, tr), T(ctx, 4000, 60000), args=['--prop', ctx.pid, '--maxext', 3, '--steps', T(ctx, 12, 40), '--vary-alloc'], shards=2, label='hist_t%d_d%d_tr%d(vary-alloc)' % (t, d, tr))
def c10(ctx, spec):
    cfgs = [(1, 2, tr) for tr in range(16)] + [(1, 1, 0), (1, 1, 7), (1, 3, 0), (1, 3, 7)]
    hist_run(ctx, cfgs, T(ctx, 5000, 100000), extra=['--vary-alloc'], shards=1 if ctx.tier == 'quick' else 2)

# ---------------------------------------------------------------------------------------------- C09
def c09(ctx, spec):
    import subprocess
    ctx.build([dict(name='c09_d%d' % d, src='harness/c09_fault.cpp', cfg='asan_noleak', defs=['H_D=%d' % d]) for d in (1, 2, 3)])
    th = ['--thorough'] if ctx.tier == 'thorough' else []
    total = 0
    for d in (1, 2, 3):
        b = ctx.built['c09_d%d' % d]
        if not b['ok']: continue
        n = int(subprocess.run([b['bin'], '--list'] + th, stdout=subprocess.PIPE, env=ctx.run_env(b)).stdout.decode().strip() or 0); total += n
        ctx.run_sharded('c09_d%d' % d, n, args=th, shards=min(8, n))
    ctx.extra['scenarios'] = total; ctx.extra['injection_points_executed'] = ctx.counters.get('injection_points', 0)

# ---------------------------------------------------------------------------------------------- C19
def c19(ctx, spec):
    ctx.build([dict(name='c19_d%d' % d, src='harness/c19_rebase.cpp', cfg='asan', defs=['C19_D=%d' % d]) for d in (1, 2, 3, 4)])
    n = T(ctx, 4000, 150000)
    for d in (1, 2, 3, 4):
        ctx.run_sharded('c19_d%d' % d, n, args=['--maxext', 4, '--maxops', 4], shards=4)

# ---------------------------------------------------------------------------------------------- C20
def c20(ctx, spec):
    builds = [dict(name='c20_death', src='harness/c20_death.cpp', cfg='asan_noleak'),
              dict(name='dig_dbg', src='harness/c20_digest.cpp', cfg='dbg'), dict(name='dig_ndbg', src='harness/c20_digest.cpp', cfg='ndbg'), dict(name='dig_adis', src='harness/c20_digest.cpp', cfg='adis'),
              dict(name='sil_c01', src='harness/c01_view.cpp', cfg='asan'), dict(name='sil_c03', src='harness/c03_alg.cpp', cfg='asan'), dict(name='sil_c07', src='harness/c07_cmp.cpp', cfg='asan', defs=['C07_D=2']),
              dict(name='sil_c05', src='harness/c05_assign.cpp', cfg='asan', defs=['C05_D=2'])]
    builds += [dict(name='hist_t1_d2_tr0', src='harness/hist.cpp', cfg='asan', defs=['H_T=1', 'H_D=2', 'H_TR=0'])]
    ctx.build(builds)
    # (3) death tests
    ctx.run_sharded('c20_death', T(ctx, 3000, 120000), args=['--maxext', 4, '--maxops', 4], shards=8)
    # (1) silence on valid use: the workloads of C01/C03/C05/C07/E-HIST with assertions on; only assertion failures concern C20
    is_assert = lambda v: 'assert(' in v['key'] or v['key'].split(':')[1:2] == ['assert']
    n = T(ctx, 6000, 200000)
    ctx.run_sharded('sil_c01', n, args=['--maxext', 5, '--maxops', 6, '--zero', 5], shards=6, keep=is_assert)
    ctx.run_sharded('sil_c03', n * 3, args=['--maxext', 6], shards=4, keep=is_assert)
    ctx.run_sharded('sil_c07', n, args=['--maxext', 3], shards=2, keep=is_assert)
    ctx.run_sharded('sil_c05', n, args=['--maxext', 4, '--maxops', 4], shards=4, keep=is_assert)
    ctx.run_sharded('hist_t1_d2_tr0', n, args=['--prop', 'C20', '--steps', 12], shards=2, keep=is_assert)
    # (2) configuration independence: identical digests under assert-on / NDEBUG / BOOST_MULTI_ASSERT_DISABLE
    nd = T(ctx, 20000, 600000)
    for b in ('dig_dbg', 'dig_ndbg', 'dig_adis'): ctx.run_sharded(b, nd, args=['--maxext', 5, '--maxops', 6], shards=5)
    ref = ctx.digests.get('dig_dbg', {}); compared = 0
    for other in ('dig_ndbg', 'dig_adis'):
        dd = ctx.digests.get(other, {})
        for k, h in ref.items():
            if k in dd:
                compared += 1
                if dd[k] != h:
                    ctx.add_violation('C20:config-diff:%s' % other[4:], 'case %d: digest %s with assertions on, %s with %s' % (k, h, dd[k], other[4:]), run=dict(build=ctx.replay_build(ctx.built[other]), args=['--maxext', 5, '--maxops', 6], seed=ctx.seed, case=k))
                    break
    ctx.extra['digests_compared_across_configurations'] = compared
    if compared < nd: ctx.inconclusive.append('only %d of %d digests could be compared across build configurations' % (compared, 2 * nd)) if compared < nd // 2 else None

# ---------------------------------------------------------------------------------------------- C13
def c13(ctx, spec):
    import subprocess
    types = (0, 1) if ctx.tier == 'quick' else (0, 1, 2, 3)
    pairs = [(g, t) for g in (1, 2, 3, 4) for t in types] + ([(1, 2), (1, 3), (4, 2), (4, 3)] if ctx.tier == 'quick' else [])  # quick: the single-precision types for level 1 / gemv and the lazy forms too (cheap groups)
    builds = [dict(name='c13_g%d_t%d' % (g, t), src='harness/c13_blas.cpp', cfg='asan_noleak', defs=['C13_G=%d' % g, 'C13_T=%d' % t], libs=['-lopenblas'], env={'OPENBLAS_NUM_THREADS': '1'}, may_fail=(g == 2 and t == 3)) for (g, t) in pairs]
    if ctx.tier == 'thorough': builds += [dict(name='c13vg_g%d_t%d' % (g, t), src='harness/c13_blas.cpp', cfg='vg', defs=['C13_G=%d' % g, 'C13_T=%d' % t], libs=['-lopenblas']) for g in (1, 3, 4) for t in (0, 1)]
    ctx.build(builds)
    for b in builds:
        bb = ctx.built[b['name']]
        if not bb['ok']:
            if b.get('may_fail'): ctx.notes.append('%s does not compile on this tree (complex<float> gemm: beta comparison in core.hpp): not exercised' % b['name'])
            continue
        n = int(subprocess.run([bb['bin'], '--list'], stdout=subprocess.PIPE, env=ctx.run_env(bb)).stdout.decode().strip() or 0)
        m = re.search(r'_g(\d)_t(\d)$', b['name']); base = os.path.join(os.path.dirname(os.path.abspath(__file__)), 'baselines', 'c13_accept_g%s_t%s.txt' % (m.group(1), m.group(2)))
        acc = ['--accept-baseline', base] if os.path.exists(base) else []   # per-case acceptance on the pinned tree (committed; see tools/c13_accept.py)
        if b['cfg'] == 'vg': ctx.run_sharded(b['name'], min(n, 1500), args=acc, shards=8, timeout=3000)
        else: ctx.run_sharded(b['name'], n, args=acc, shards=(12 if n > 100000 else 4))
    # a worker killed by heap corruption / a signal inside BLAS is an out-of-bounds write that did not stay inside the canaries
    for v in ctx.violations:
        if re.search(r':(abort|segv|asan:[\w\-]+|exit\(\w+\)|memcheck:[\w\-]+)$', v['key']): v['key'] = re.sub(r':(abort|segv|asan:[\w\-]+|exit\(\w+\)|memcheck:[\w\-]+)$', ':oob-write', v['key'])
    ctx.extra['outcomes'] = {k: v for k, v in ctx.counters.items() if k in ('computed-ok', 'rejected', 'rejected:assertion', 'rejected:exception', 'accept-baseline-compared', 'no-longer-accepted')}
    if ctx.counters.get('accept-baseline-stale'): ctx.inconclusive.append('baselines/c13_accept_*.txt do not match the case enumeration of harness/c13_blas.cpp: regenerate with tools/c13_accept.py on the unchanged tree')
    ctx.extra['not_compilable_on_pinned_tree'] = ['blas::asum (result type deduced as int / no matching core::asum)', 'blas::iamax in assertion-enabled builds (assert(!offset(x)) names an inaccessible base)', 'blas::operators::operator^ (swap of two vectors)', 'y += a*x / y -= a*x with a view on the left (the operator returns the view by value)', '(a*A) % x while operators::operator% is visible', 'complex<float> gemm (beta comparison in core.hpp) if the TU fails to build']

# ---------------------------------------------------------------------------------------------- C15
def c15(ctx, spec):
    builds = [dict(name='c15_d%d' % d, src='harness/c15_fftw.cpp', cfg='asan_noleak', defs=['C15_D=%d' % d], libs=['-lfftw3']) for d in (1, 2, 3, 4)]
    if ctx.tier == 'thorough': builds += [dict(name='c15vg_d%d' % d, src='harness/c15_fftw.cpp', cfg='vg', defs=['C15_D=%d' % d], libs=['-lfftw3']) for d in (2, 3)]
    ctx.build(builds)
    n = T(ctx, 3000, 120000)
    for d in (1, 2, 3, 4): ctx.run_sharded('c15_d%d' % d, n, args=['--maxext', 5 if d < 4 else 4], shards=4)
    if ctx.tier == 'thorough':
        for d in (2, 3): ctx.run_sharded('c15vg_d%d' % d, 1200, args=['--maxext', 4], shards=8, timeout=3000)

# ---------------------------------------------------------------------------------------------- C14
def c14(ctx, spec):
    env = {'OPENBLAS_NUM_THREADS': '1'}
    builds = [dict(name='c14_r%d' % r, src='harness/c14_lapack.cpp', cfg='asan_noleak', defs=['C14_R=%d' % r], libs=['-lopenblas'], env=env) for r in (1, 2, 3)]
    builds += [dict(name='c14_syev_probe', src='harness/c14_syev_probe.cpp', cfg='dbg', libs=['-lopenblas'], may_fail=True)]
    if ctx.tier == 'thorough': builds += [dict(name='c14vg_r%d' % r, src='harness/c14_lapack.cpp', cfg='vg', defs=['C14_R=%d' % r], libs=['-lopenblas']) for r in (1, 2, 3)]
    ctx.build(builds)
    n = T(ctx, 4000, 150000)
    for r in (1, 2, 3): ctx.run_sharded('c14_r%d' % r, n, args=['--maxn', T(ctx, 6, 9)], shards=4)
    if ctx.tier == 'thorough':
        for r in (1, 2, 3): ctx.run_sharded('c14vg_r%d' % r, 1500, args=['--maxn', 5], shards=8, timeout=3000)
    if not ctx.built['c14_syev_probe']['ok']:
        ctx.add_violation('C14:syev:header-does-not-compile', 'boost/multi/adaptors/lapack/syev.hpp does not compile: ' + ' | '.join(l for l in ctx.built['c14_syev_probe']['log'].splitlines() if 'error' in l)[:400], desc='compile probe harness/c14_syev_probe.cpp')
    else:
        ctx.notes.append('lapack/syev.hpp compiles on this tree, but no syev workload exists yet: the syev part of C14 is NOT exercised')
    ctx.extra['outcomes'] = {k: v for k, v in ctx.counters.items() if k.startswith('computed') or k.startswith('rejected')}

# ---------------------------------------------------------------------------------------------- C17
def c17(ctx, spec):
    cfgs = [(0, 1), (0, 2), (0, 3), (0, 4), (1, 2), (2, 1), (2, 2), (3, 2), (4, 2), (4, 3)] + ([(1, 1), (1, 3), (2, 3), (3, 1), (3, 3)] if ctx.tier == 'thorough' else [])
    ctx.build([dict(name='c17_t%d_d%d' % (t, d), src='harness/c17_serial.cpp', cfg='asan', defs=['C17_T=%d' % t, 'C17_D=%d' % d], libs=['-lboost_serialization']) for (t, d) in cfgs])
    n = T(ctx, 1500, 60000)
    for (t, d) in cfgs: ctx.run_sharded('c17_t%d_d%d' % (t, d), n, args=['--maxext', 4 if d < 4 else 3], shards=2)

# ---------------------------------------------------------------------------------------------- C18
MPI_INC = ['-I/usr/lib/x86_64-linux-gnu/openmpi/include']; MPI_LIB = ['-L/usr/lib/x86_64-linux-gnu/openmpi/lib', '-lmpi']
def c18(ctx, spec):
    env = {'OMPI_ALLOW_RUN_AS_ROOT': '1', 'OMPI_ALLOW_RUN_AS_ROOT_CONFIRM': '1', 'OMPI_MCA_btl': 'self', 'OMPI_MCA_rmaps_base_oversubscribe': '1'}
    builds = [dict(name='c18_t%d' % t, src='harness/c18_mpi.cpp', cfg='asan_noleak', defs=['C18_T=%d' % t], flags=MPI_INC, libs=MPI_LIB, env=env) for t in (0, 1, 2)]
    if ctx.tier == 'thorough': builds += [dict(name='c18vg_t1', src='harness/c18_mpi.cpp', cfg='vg', defs=['C18_T=1'], flags=MPI_INC, libs=MPI_LIB, env=env)]
    ctx.build(builds)
    n = T(ctx, 1500, 60000)
    for t in (0, 1, 2): ctx.run_sharded('c18_t%d' % t, n, args=['--maxext', 4, '--maxops', 5], shards=3, timeout=1200)
    if ctx.tier == 'thorough': ctx.run_sharded('c18vg_t1', 600, args=['--maxext', 3, '--maxops', 3], shards=6, timeout=3000)

# ---------------------------------------------------------------------------------------------- C12
def c12(ctx, spec):
    ctx.build([dict(name='c12_e%d' % e, src='harness/c12_proj.cpp', cfg='asan', defs=['C12_E=%d' % e]) for e in (0, 1, 2)])
    n = T(ctx, 8000, 300000)
    for e in (0, 1, 2): ctx.run_sharded('c12_e%d' % e, n, args=['--maxext', 4, '--maxops', 4], shards=5)
    ctx.extra['skipped_not_compilable_or_out_of_domain'] = {k: v for k, v in ctx.counters.items() if k.startswith('skipped:')}

# ---------------------------------------------------------------------------------------------- C11
def c11(ctx, spec):
    names = {0: 'raw', 1: 'min', 2: 'checked'}
    ctx.build([dict(name='c11_%s' % names[p], src='harness/c11_fancy.cpp', cfg='asan', defs=['C11_P=%d' % p], may_fail=(p != 0)) for p in (0, 1, 2)] + [dict(name='c11_proxy', src='harness/c11_proxy.cpp', cfg='asan', defs=[], may_fail=True)])
    if not ctx.built['c11_raw']['ok']: ctx.inconclusive.append('harness build failed: c11_raw'); return
    for p in (1, 2):
        b = ctx.built['c11_%s' % names[p]]
        if not b['ok']:  # compiles for T* but not for the fancy pointer: the library assumes something a user-defined pointer does not offer
            ctx.add_violation('C11:differential-compile:%s' % names[p], 'the same harness TU compiles over raw pointers but not over the %s fancy pointer: %s' % (names[p], ' | '.join(l for l in b['log'].splitlines() if 'error' in l)[:600]), desc='harness/c11_fancy.cpp -DC11_P=%d' % p)
    n = T(ctx, 6000, 250000)
    for p in (0, 1, 2):
        if ctx.built['c11_%s' % names[p]]['ok']: ctx.run_sharded('c11_%s' % names[p], n, args=['--maxext', 4, '--maxops', 5], shards=5)
    # the same view programs over an array_ref whose pointer has a PROXY reference and an encoded backing store (every bypass of the pointer's own dereference reads a wrong value)
    if not ctx.built['c11_proxy']['ok']:
        ctx.add_violation('C11:differential-compile:proxy-reference-pointer', 'views, element access, assignment, swap, reverse, rotate and sort over an array_ref whose pointer dereferences to a proxy object no longer compile: ' + ' | '.join(l for l in ctx.built['c11_proxy']['log'].splitlines() if 'error' in l)[:500], desc='compile of harness/c11_proxy.cpp')
    else: ctx.run_sharded('c11_proxy', T(ctx, 6000, 200000), args=['--maxext', 4, '--maxops', 4], shards=4)
    ref = ctx.digests.get('c11_raw', {}); compared = 0
    for p in (1, 2):
        dd = ctx.digests.get('c11_%s' % names[p], {})
        for k, h in ref.items():
            if k in dd:
                compared += 1
                if dd[k] != h:
                    ctx.add_violation('C11:digest-differs:%s' % names[p], 'case %d: digest %s over raw pointers, %s over the %s pointer' % (k, h, dd[k], names[p]), run=dict(build=ctx.replay_build(ctx.built['c11_%s' % names[p]]), args=['--maxext', 4, '--maxops', 5], seed=ctx.seed, case=k)); break
    ctx.extra['digests_compared_across_pointer_types'] = compared
    if compared < n: ctx.inconclusive.append('only %d digests compared across pointer types' % compared)

# ---------------------------------------------------------------------------------------------- C16
def c16(ctx, spec):
    cfgs = [(d, r) for d in (1, 2, 3) for r in range(6)]
    ctx.build([dict(name='c16_d%d_r%d' % (d, r), src='harness/c16_const.cpp', cfg='dbg', flags=['-O0'], defs=['C16_D=%d' % d, 'C16_ROOT=%d' % r]) for (d, r) in cfgs])
    for (d, r) in cfgs: ctx.run_sharded('c16_d%d_r%d' % (d, r), 1, shards=1)
    ctx.extra['explanation'] = spec['explanation']
    ctx.extra['_distinct_extra'] = ctx.counters.get('paths_classified', 0)   # every classified access path is a distinct case (path x terminal x root kind x D)
    ctx.evaluations += ctx.counters.get('paths_classified', 0)

HIST_RULE = ('histories (3..12 steps quick, ..40 thorough) over a pool of 4 owning arrays of one (element type, rank, allocator traits): 26 operation kinds (sizing/fill/allocator-extended/copy/move/view/init-list/iterator constructors, copy/move/self assignment over '
             'every prior state, assignment from views/other element type/init lists/ranges, swap, decay, 3 reextent overloads, clear, ={}, reshape, assign(first,last), element writes, destroy); unique ids as values; extents 0..3. '
             'After EVERY step: each live array vs. its model value, storage ranges pairwise disjoint, live-object registry == sum of num_elements, outstanding blocks == non-empty arrays with matching sizes, block owner == get_allocator(), get_allocator() == what the traits prescribe. ')

REGISTRY = {
    'C16': dict(fn=c16, level='other',
                explanation='Whether an expression is well-formed / yields a modifiable reference is decided by the compiler, not by an execution; runtime monitoring can only observe it indirectly. This check therefore instantiates, for each root kind {array const, array, static_array const, array_ref const, view held by auto const&, view held by auto&&} and D 1..3, '
                            'every access path made of up to 2 view-forming steps (15 kinds) followed by one of 13 terminal accessors (chained [], call syntax, *begin(), begin()[0], *cbegin(), cbegin()[0], elements()[0], *elements().begin(), elements().front(), front(), back(), home() cursor, as_const), classifies the element expression with std::is_assignable and records it as a run-time event; '
                            'monitor: const roots, cbegin paths and as_const paths must never be assignable; every write found possible from a mutable root is executed and must change exactly one element of the root; views and array_refs must not be copy-constructible. Trusted base: the compiler\'s overload resolution as surfaced by type traits. '
                            'Steps are applied by rank/constness rules (never by blind detection) because rejected writes are hard errors in this library.',
                rule='finite enumeration of access paths of depth <= 3 (see explanation); distinct = each (root kind, D, path, terminal); non-trivial = all',
                assumptions=['compile-time facts are surfaced through std::is_assignable / std::is_copy_constructible', 'steps that do not compile on the pinned tree (strided/dropped/taked/reversed() const& of D>1 views) are excluded by rule'],
                technique='runtime classification of instantiated access paths (type-trait probes) + executed writes'),
    'C11': dict(fn=c11, level='exploration',
                rule='one harness TU is built three times: over T* / std::allocator, over a minimal fancy pointer holding an opaque address with NO conversion to or from T* (plus its allocator), and over the same pointer with bounds + provenance checked on every dereference. '
                     'Each case runs a random view program (as C01) over array_ref<int,D,P> and then owning arrays array<int,D,A> and array<std::string,D,A> (copy, ==, <, sort rows, reverse/rotate elements(), 3 reextents, view assignment, swap, move, clear, empty and zero-extent arrays, construction from rotated views): '
                     'a digest of every observable result (sizes, strides, element identities, values, iterator differences, comparison results) must be identical in the three builds; the checking pointer must record no null / out-of-bounds dereference, no mixed-provenance comparison and no deallocate(null, n>0); '
                     'a TU that compiles for T* but not for a fancy pointer is itself a violation (differential compile). distinct = hash(root shape, view program); non-trivial = non-empty final view',
                assumptions=['the fancy pointer publishes default_allocator_type (the library\'s documented customisation point)', 'raw-pointer-only facilities (reinterpret_array_cast, member_cast, BLAS/FFTW/MPI adaptors) are excluded']),
    'C12': dict(fn=c12, level='exploration',
                rule='source = view reached by a random view program (as C01, root D 1..3) over elements struct{double a; int b; int c;} / std::complex<double> / int; one of 18 projections is applied to it: member_cast (int and double members, plus a further rotated()), element_transformed (member pointer, value lambda, reference lambda), '
                     'static_array_cast<T const>, const_array_cast, as_const, reinterpret_array_cast<double>(2), reinterpret_array_cast<array<double,2>>(), blas::real / imag / real_doubled, arrays constructed from projections and from views of convertible element type. '
                     'Oracle: extents equal the source\'s (plus the trailing n; last extent doubled for real_doubled) and for every index tuple the ADDRESS of the projected element equals the byte-offset rule applied to the model element (offsetof member; j*sizeof(U); 0 / sizeof(T) for real / imag), '
                     'or its VALUE equals f(source element) re-read after the source was modified (laziness); writes through reference projections land in the source; constructed arrays are element-wise conversions. distinct = hash(view program, projection); non-trivial = >= 2 elements',
                assumptions=['sources whose element pointer is pointer-to-const, and real/imag of read-only view types, do not compile with these projections on the pinned tree: skipped and counted', 'real_doubled is in domain only when the last dimension is contiguous (flatted precondition), decided on the model', 'layout_t::scale requires offset 0: re-based sources are out of domain']),
    'C18': dict(fn=c18, level='exploration',
                rule='singleton MPI_Init (no mpiexec); source = view reached by a random view program (as C01, D 1..4) over an array of int/double/float; message(source.elements()) is packed with MPI_Pack: byte count and every packed element vs. the canonical sequence of the table model; '
                     'then MPI_Unpack or MPI_Sendrecv-to-self into message(dst.elements()) of a destination with equal extents but another layout (8 kinds: transposed/rotated/unrotated/reversed storage, padded block, strided-of-doubled, subarray) over poisoned storage: k-th element to k-th element, nothing outside the destination view touched. '
                     'Every 50th case is a huge-stride probe: a 2-3 row array_ref over a lazily committed anonymous mapping whose rows are 2^31, 2^31+16 or 2^32+8 bytes apart; sub-block, column and transposed sub-block are packed and unpacked through message(elements()) (skipped and counted if the mapping is refused). '
                     'A PMPI interposer keeps a ledger of MPI_Type_create_hvector/resized/vector/dup/contiguous/commit/free and of the datatypes used by Pack/Unpack/Sendrecv: used while uncommitted or dead, freed twice, or never freed are violations. distinct = hash(view program, destination kind, transfer kind); non-trivial = >= 2 elements',
                assumptions=['one process: Sendrecv to self over MPI_COMM_SELF exercises the same datatype engine as a remote transfer', 'Open MPI internals are uninstrumented (memcheck pass in thorough)']),
    'C17': dict(fn=c17, level='exploration',
                rule='Boost.Serialization 1.83 text/binary/XML archives; element types int, double, std::string (with spaces and XML metacharacters), nested multi::array<int,1>; ranks 1..4; extents 0..4 incl. all-zero and single-zero; first indices 0, -2..2 and (one re-based case in five) around +-2^31, 3e9, -5e9; a fifth element type is a class with object tracking switched on (BOOST_CLASS_TRACKING track_always); '
                     'whole-array round trip into a loading array in prior state {empty, same extents, other extents, larger, moved-from, same count but other extents}: extents, elements, ==, and re-saving gives the identical archive (XML archives of ints are parsed independently: exactly num_elements items in canonical order); '
                     'view round trip: a view {whole, rotated, sub-block, strided, transposed} is saved and loaded into the same kind of view over another root: k-th element to k-th element, everything outside the loaded view untouched; the same archive is also loaded into a contiguous view of equal extents, and the archive of a contiguous view into the laid-out view (the archive of a view must not depend on its memory layout). distinct = hash(archive kind, prior state / view kind, emptiness); non-trivial = >= 2 elements',
                assumptions=['0-D arrays are not serialised here (reduced interface)']),
    'C14': dict(fn=c14, level='exploration',
                rule='potrf: n 1..6 (thorough ..9) x {row-major, column-major} x {contiguous, padded} x both triangles x {SPD M*M^T+nI, indefinite with a known first non-positive leading minor}: returned block order, factor*factor^T vs the selected triangle (50*n*eps*|A|), other triangle and everything outside the view untouched. '
                     'geqrf: m,n 1..6 rectangular, 4 layouts: Q*R rebuilt from the reflectors and tau in LAPACK\'s own column-major reading of the view vs. the input, outside untouched. gesvd: m,n 1..6, A/U/VT layouts: U*diag(s)*VT vs the input, s non-negative and descending, outside of all three roots untouched. '
                     'Rejections (exception / assertion) of layouts LAPACK cannot express are allowed and tabulated. syev: compile probe only. thorough adds valgrind memcheck. distinct = hash(routine, layouts, triangle, definiteness, size classes); non-trivial = n >= 2',
                assumptions=['guard canaries + poisoned padding stand in for ASan inside LAPACK (memcheck in thorough)', 'gesvd convention: the 4th output holds V^T (A = U diag(s) VT)', 'syev.hpp does not compile at the pinned commit: reported as a finding, not exercised']),
    'C15': dict(fn=c15, level='exploration',
                rule='random cases: D 1..4, extents 1..6 (non powers of two, size-1 dimensions forced sometimes), all 2^D masks, both signs, input and output layouts independently from {contiguous, rotated root, unrotated root, transposed root, padded block, strided-of-doubled} over guarded roots (64 canaries, poisoned padding); '
                     'every 40th case (D = 2) is a huge-stride probe over a lazily committed 64 GiB mapping (rows 2^31 + 8k complex elements apart: as input, as output, in place; skipped and counted if the mapping is refused); modes: out-of-place dft, in-place overload, forward followed by backward, a plan executed on other arrays of the same layouts, and (D >= 2) an owning array constructed from / assigned the lazy range fft::dft(which, in, dir) / dft_forward / dft_backward of adaptors/fft.hpp (extents of the input, elements of the direct DFT, input untouched). Oracle: direct O(N^2) DFT along exactly the masked dimensions (batches over the rest) with tolerance 1e-10*N*max|in|; distinct input bit-identical afterwards; every root element outside the output view untouched; forward∘backward == N_transformed * input. '
                     'thorough adds a valgrind memcheck pass (reads/writes inside FFTW). distinct = hash(mask, layout pair, mode, sign, size classes); non-trivial = more than one element and more than one transformed point',
                assumptions=['FFTW itself is trusted as a black box only through its observable reads/writes: ASan cannot see inside it (canaries/poison in quick, memcheck in thorough)']),
    'C13': dict(fn=c13, level='exploration', exhaustive=True,
                rule='exhaustive enumeration (case k = mixed-radix index): gemm {in-place, C=gemm, C+=gemm, +gemm} x A,B,C layouts {row-major contiguous, row-major padded sub-block, column-major contiguous, column-major padded} x m,n,k in 0..3 x 3 (alpha,beta) pairs x (complex: N/J/H on A and B); '
                     'gemv {in-place, y=gemv} x 4 matrix layouts x 4x4 vector layouts (unit, strided, column of padded matrix, row of padded matrix) x m,n in 0..3 x scalars; axpy, scal, copy, swap, dot (u/c forms), nrm2 on 4x4 vector layouts x n in 0..4; herk, syrk, trsm x layouts x both triangles x n,k in 0..3, trsm also over {A,H(A)} x {B,H(B)} x 4 complex scalars; operator / lazy-range forms (y+=axpy(a,x), y+=a*x, x+y, y*=a, y=copy(x), y<<x, T=dot, dot(x,y,res), array<T,0>=dot, nrm2, abs, y+=gemv, +gemv, A%x, (a*A)%x, C=A*B, C+=A*B, a*gemm, B|=U(A), B/=L(A), herk convenience forms) over the same layouts and sizes; double and complex<double> (thorough: float, complex<float>, and memcheck). '
                     'Oracle: naive reference on small-integer data (exact), guarded buffers: 64 canaries around each root and poisoned padding inside it, inputs compared bit for bit; outcome classes computed-ok | rejected (exception or assertion: allowed) | wrong | oob-write | input-modified. '
                     'distinct = (operation, layout tuple, element type, size class 0/1/n per extent, scalar class); non-trivial = non-empty output',
                assumptions=['OpenBLAS reads/writes are invisible to ASan: canaries + poisoned padding in quick, valgrind memcheck in thorough', 'asum/iamax are not compilable in assertion-enabled builds at the pinned commit and are not exercised']),
    'C20': dict(fn=c20, level='exploration',
                rule='three monitors. (1) silence: the valid workloads of C01, C03, C05, C07 and E-HIST run with assertions on; any library assertion is a violation; evidence lists the assertion sites evaluated (count per file:line) so that silence is not vacuous. '
                     '(2) configuration independence: a digest of every observable result (sizes, strides, element offsets through brackets and elements(), iterator differences, ==/!=/<, copies, sort, reverse, reextent, view assignment, swap) of random view programs is computed in three builds '
                     '(assertions on; -DNDEBUG; -DBOOST_MULTI_ASSERT_DISABLE) and must be identical case by case. (3) death tests, one forked child each: views from random programs x an index just outside, far outside, or outside by a multiple of 2^32 (congruent to a valid index in 32-bit arithmetic) in one chain position x {brackets, call, apply}; valid indexing / slicing of a char view with more than 2^32 elements (lazily committed anonymous mapping) must NOT be stopped; '
                     'and 12 overload kinds of assignment/swap between views/arrays whose extents differ in the leading extent, an inner extent, or by permutation: the child must exit through a library assertion before any sanitizer report; survivors are violations. '
                     'distinct = hash of program / probe kind; non-trivial = >= 1 probe or >= 1 element observed',
                assumptions=['broadcast (stride 0) views are exempt from the bounds assertion by the library and are not probed', 'death-test buffers are padded so that the verdict does not depend on ASan red zones']),
    'C19': dict(fn=c19, level='exploration',
                rule='the view programs of C01 (plus reindexed / blocked / stenciled) run on arrays constructed from explicit index extensions with bases -3..3 per dimension (root D 1..4); index-taking operations receive reported_first + relative index; '
                     'after EVERY operation the zero-based table model (the twin) is compared: sizes, extension sizes, and for the k-th valid index tuple of the extension the view itself reports: brackets, call, apply, k-th elements() position, elements()[k], begin()+n; '
                     'at the end copy construction, ==/!=, assignment into identical extensions; reextent of the re-based root to other explicit extensions keeps elements by index tuple. distinct = hash(root D, base signs, op sequence); non-trivial = >=1 effective op and >=1 element compared',
                assumptions=['results of re-basing are addressed through the extension each view reports (the index base of derived views is not documented per operation)']),
    'C09': dict(fn=c09, level='fault_enumeration', exhaustive=True,
                rule='scenario = operation (29 kinds: every constructor form, copy/move ctor, copy/move assignment, assignment from view / other element type / init list / iterator pair, 3 reextents, clear, swap, decay, view assignment/fill/swap, static_array copy/move) x prior state of the target {empty, same extents, other extents} x shape (1-D 3; 2-D 2x2; 3-D 2x1x2; thorough adds 1, 5, 2x3, 3x1, 2x2x2), tracked<int> elements and a ledger allocator. '
                     'A dry run counts the injection points of 7 kinds (allocation, element copy/move construction, copy/move assignment, value/default construction); then EVERY point k is made to throw in its own forked child, which checks: exception reaches the caller (no terminate), '
                     'no-new-storage operations did not allocate, every survivor has extents == live elements in an outstanding block, is assignable and destructible, and the registry and ledger are empty afterwards. The enumeration is exhaustive for the scenario set in both tiers. '
                     'distinct = scenario (operation, prior state, shape); non-trivial = the scenario has >= 1 injection point',
                assumptions=['single fault per execution (no double faults)', 'initializer-list arguments allocate while being built: not judged as allocation by the operation']),
    'C04': dict(fn=c04, level='exploration', rule=HIST_RULE + 'C04 oracle: value model, disjoint storage, moves touch no element (special-member counters), moved-from sources empty and reusable. distinct = hash(op-kind sequence incl. prior-state class); non-trivial = >=3 steps incl. an assignment over existing state' + ' The same oracles over histories of multi::static_array (harness/sa_hist.cpp: fixed extents; move construction allocates and moves the elements, the source keeps its extents; same-extent copy / move assignment and swap keep every block in place; rvalue begin()/end() are move iterators).',
                assumptions=['0-D arrays are exercised by a separate reduced harness (their interface lacks most operations)', 'an empty iterator pair for assign/ctor(first,last) is excluded (the library evaluates *first on it)']),
    'C06': dict(fn=c06, level='exploration', rule=HIST_RULE + 'C06 oracle: model intersection of old/new extents on index tuples for reextent (fill value or value-initialised; unspecified for trivially default-constructible without fill; the rvalue overload only has to produce the extents), no-op reextent keeps data_elements(), clear/={}/reshape/assign/init-list contents. distinct/non-trivial as C04',
                assumptions=['reextent() && discards contents by design (move-reextent): only extents and validity are required for it']),
    'C08': dict(fn=c08, level='exploration', rule=HIST_RULE + 'C08 oracle: tracked<int> registry (construct over live / use or destroy of dead objects, cookie), ledger (unknown/size-mismatched deallocate), quiescent invariants after every step, nothing outstanding at the end; poison re-read proves sizing ctor / fill-less reextent did not write trivial elements. distinct/non-trivial as C04' + ' The same oracles over histories of multi::static_array (harness/sa_hist.cpp: fixed extents; move construction allocates and moves the elements, the source keeps its extents; same-extent copy / move assignment and swap keep every block in place; rvalue begin()/end() are move iterators).',
                assumptions=['construct/destroy routing (allocator_traits vs uninitialized_*) is not judged, only element lifetimes and blocks']),
    'C10': dict(fn=c10, level='exploration', rule=HIST_RULE + 'C10 oracle: ledger_alloc<T, POCCA, POCMA, POCS, always_equal> with instance ids over all 16 trait combinations and 3 instance ids; expected-allocator model per step (select_on_container_copy_construction hop counter); every block must be released through an allocator equal to its producer. distinct/non-trivial as C04',
                assumptions=['swap of unequal allocators is only generated when POCS (precondition)', 'the allocator of decay()/unary plus results is not prescribed by the property: adopted as reported']),
    'C05': dict(fn=c05, level='exploration',
                rule='destination = mutable view reached by a random view program (as C01) over a guarded root filled with unique ids; source of equal extents from 8 layout kinds (array, transposed/unrotated/rotated/reversed storage, padded block, strided-of-doubled, subarray()) with unique ids; '
                     '13 overload kinds (lvalue/rvalue destination = const/mutable/rvalue source, other element type, elements()=elements(), fill, swap of two views, initializer lists, vector ranges, element_moved(), move()); int and std::string elements; '
                     'after the operation the whole root image is compared: model elements hold the source value of the same logical index, every other root element and the guards are unchanged, sources unchanged (copies) or moved-from exactly on the viewed set (moves), root not rebound. '
                     'distinct = hash(root shape class, view program, overload kind, source kind); non-trivial = destination has >= 2 elements',
                assumptions=['destinations whose type became read-only along the program (reversed, chunked, ...) cannot be assigned and are skipped (counted)', 'self-overlapping destinations (broadcast-like) are skipped']),
    'C07': dict(fn=c07, level='exploration',
                rule='pairs (and triples) of operands with values in {0,1}, D 0..4, extents 1..3 (zero sometimes), b derived from a (same / one flip / permuted extents with the same flat sequence / one extent +-1 keeping common tuples / other factorisation / unrelated); '
                     '9 operand kinds (array, const array, padded block view, transposed view, strided view, array_ref, array<long>, unrotated view, subarray()) x 9, plus two differently laid out views of the SAME storage; every relational operator that compiles (detection idiom; availability table in evidence) '
                     'is compared with a nested-vector model (== iff same extents in every dimension and equal elements; < recursive lexicographic with proper prefix smaller), plus != is negation, trichotomy, transitivity of < and ==, congruence of == with <. Empty operands: only ==/!= consistency. '
                     'distinct = hash(kind pair, extents relation, model relation); non-trivial = both operands non-empty',
                assumptions=['nested-vector model is the specification', 'operators that do not compile for a kind pair are skipped and listed']),
    'C03': dict(fn=c03, level='exploration',
                rule='20 standard algorithms x {begin()/end() (proxy sub-views for D>1), elements()} x view families (whole, padded block, rotated, transposed block, strided rows/columns, column, row, diagonal, sub[i]; root D 1..3, sizes 0..9, values 0..3 with many duplicates); '
                     'the same algorithm runs on a std::vector<vector<int>> model; contents are read back through raw root storage + table model; exact equality for fully specified algorithms, prefix-only for unique/remove, destination-only for move, '
                     'spec postconditions (sorted/partitioned + permutation) for sort/partial_sort/nth_element/partition; complement of the view and read-only inputs unchanged; read-only two-range algorithms also get a second range that is a differently laid out view of the SAME root. '
                     'distinct = hash(algorithm, range kind, family, D, rank, size class); non-trivial = range length >= 2',
                assumptions=['libstdc++ algorithms on std::vector are the reference', 'int elements (proxy moves of non-trivial elements are covered by C05/C08)']),
    'C02': dict(fn=c02, level='exploration',
                rule='views from random view programs (as C01); on each final view: random walks (30 steps quick / 60 thorough) over 3 iterator variables with integer position shadows for 4 iterator families '
                     '(begin()/end(), cbegin()/cend(), elements() mutable and const): ++ -- post++ post-- += -= =b+n =b-n assign copy compare [] inc-dec dec-inc; after EVERY step each dereferenceable variable is '
                     'dereferenced and must designate the model element/sub-view of its position; differences/comparisons vs integers; const-vs-mutable equality; front/back/elements()[k]. '
                     'distinct = hash(view program signature, walk op sequence); non-trivial = walk had >=1 backward move and >=1 assignment on a view with >=2 positions',
                assumptions=['position model: integer per iterator variable', 'table model of the view (C01) is the specification of what a position designates']),
    'C01': dict(fn=c01, level='exploration',
                rule='random view programs (root D 1..4, extents 0..6, <=6 (quick) / <=10 (thorough) operations from 19 kinds incl. call syntax, 3 value categories, 4 root kinds); '
                     'after EVERY operation the view is compared with a table model built from the documented index mappings: sizes/size/num_elements/is_empty/extensions/strides and, '
                     'for every index tuple, 6 access paths (brackets, call, apply, cursor, elements iterator, elements()[k]) must designate the model element inside the root. '
                     'distinct = hash(root D, sorted size classes {0,1,2,>=3}, root kind, (op kind, value category) sequence); non-trivial = >=1 effective op and >=1 element compared',
                assumptions=['table model written from README index mappings is the specification', 'g++ 12 ASan/UBSan red zones; intra-object overflow not detected']),
}
